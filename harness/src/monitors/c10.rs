//! C10 — pre-sizing is semantically invisible; merged regions start empty and work.

use super::c02::LiveStack;
use super::util::*;
use super::{entry_jobs, stack_jobs, Plan, PropDef};
use crate::check::Lvl;
use crate::driver::{Ctx, Job, Tier};
use crate::entry::{Entry, Idx, IdxC, Stack};
use crate::live::Live;
use crate::panics;
use crate::val::{Dom, Kind, Same, Val};
use flatcontainer::Region;

pub const DEF: PropDef = PropDef {
    id: "C10",
    jobs,
    required,
    rule: "twin A (workload 'reserve'): one history with reserve_items / reserve_regions calls (announcing arbitrary, also wrong, items and regions, including a clone of the region itself) interleaved with pushes, against the same history without them: returned indices and all reads must agree step by step; FlatStack::with_capacity(n) / reserve(n) likewise against default(). Twin B (workload 'merge'): merge_regions / merge_capacity over 0..3 source regions (none, empty, different histories or column counts, the target's own ancestors, sources ending in the item pushed first) against Default::default() under the same pushes: merged stacks report len 0, non-coded regions return equal indices, and everything pushed reads back exactly (coded regions: values that the sources did not contain may be refused by a panic, but never read back differently). Non-trivial = at least one push after a reserve / into a merged region; distinct = distinct hash of (entry, operation list).",
    assumptions: &[
        "HuffmanContainer::reserve_regions is todo!() and is not called",
        "the state of a coded region after a refused push is unspecified; the history ends there",
    ],
};

fn jobs(plan: &Plan) -> Vec<Job> {
    let t = plan.tier;
    let mut v = entry_jobs(plan, "C10", "reserve", t.pick(40, 400, 1), |_| true);
    v.extend(entry_jobs(plan, "C10", "merge", t.pick(48, 500, 1), |_| true));
    v.extend(stack_jobs(plan, "C10", "stack-presize", t.pick(12, 100, 0), |_| true));
    v.extend(entry_jobs(plan, "C10", "chain", t.pick(32, 300, 1), |d| super::chain::eligible(d, super::chain::Fin::Presize)));
    v.extend(stack_jobs(plan, "C10", "stack-chain", t.pick(6, 50, 0), |d| super::chain::eligible_stack(d, super::chain::Fin::Presize)));
    v
}

fn required(plan: &Plan) -> Vec<String> {
    if plan.tier == Tier::Miri {
        return vec![];
    }
    let mut v = Vec::new();
    for d in plan.reg {
        for k in ["0", "1", "2+"] {
            v.push(format!("merge:{}:{k}", d.label));
        }
        v.push(format!("stack-presize:{}", d.label));
        if d.flags.reserve_regions {
            v.push(format!("reserve_regions:{}", d.label));
        }
        if d.flags.reserve_items {
            v.push(format!("reserve_items:{}", d.label));
        }
    }
    v.push("merge:ancestor".into());
    v.push("merge:chain".into());
    v.push("merge:sibling-of-covered-value".into());
    v.push("merge:source-ends-in-first-item".into());
    for d in plan.reg {
        if super::chain::eligible(d, super::chain::Fin::Presize) {
            v.push(format!("chain:{}", d.label));
        }
        if super::chain::eligible_stack(d, super::chain::Fin::Presize) {
            v.push(format!("stack-chain:{}", d.label));
        }
    }
    v.push("next-generation".into());
    v.extend(super::chain::required_pairs(super::chain::Fin::Presize));
    v
}

pub fn run<E: Entry>(ctx: &mut Ctx) {
    if ctx.what == "chain" {
        return super::chain::run::<E>(ctx, super::chain::Fin::Presize, "presize-chain");
    }
    match ctx.what.as_str() {
        "reserve" => reserve_twin::<E>(ctx),
        _ => merge_twin::<E>(ctx),
    }
}

fn reserve_twin<E: Entry>(ctx: &mut Ctx) {
    let kind = kind_for(ctx.hist_no);
    let nops = ctx.rng.range(2, if ctx.tier == Tier::Miri { 6 } else { 40 });
    let pool: Vec<E::V> = <E::V as Val>::gen_run(&mut ctx.rng, Dom::new(kind), nops + 4);
    let mut a = Live::<E>::new("a");
    let mut t = Live::<E>::new("plain");
    let nforms = Live::<E>::nforms();
    let mut reserved = false;
    for _ in 0..nops {
        match ctx.rng.below(10) {
            0 | 1 => {
                let k = ctx.rng.range(0, 8);
                let vals: Vec<E::V> = (0..k).map(|_| pool[ctx.rng.below(pool.len())].clone()).collect();
                if !reserve_items(ctx, &mut a, &vals) {
                    break;
                }
                if E::can_reserve_items() {
                    reserved = true;
                    ctx.cover(&format!("reserve_items:{}", E::label()));
                }
            }
            2 | 3 if E::can_reserve_regions() => {
                let nsrc = ctx.rng.below(3);
                let mut sources: Vec<E::R> = Vec::new();
                for _ in 0..nsrc {
                    let k = ctx.rng.range(0, 6);
                    let vals: Vec<E::V> = (0..k).map(|_| pool[ctx.rng.below(pool.len())].clone()).collect();
                    if let Some(s) = source_region::<E>(&vals) {
                        sources.push(s);
                    }
                }
                if ctx.rng.chance(1, 3) {
                    if let Some(c) = E::clone_r(&a.r) {
                        sources.push(c);
                    }
                }
                let refs: Vec<&E::R> = sources.iter().collect();
                if !reserve_regions(ctx, &mut a, &refs) {
                    break;
                }
                reserved = true;
                ctx.cover(&format!("reserve_regions:{}", E::label()));
            }
            _ => {
                let v = draw::<E>(ctx, &pool, a.issued.last().map(|x| &x.1));
                let form = ctx.rng.below(nforms);
                if !push_both(ctx, &mut a, &mut t, &v, form, form, "reserve-visible", "region with reservations vs. without") {
                    break;
                }
                if reserved {
                    ctx.nontrivial = true;
                }
            }
        }
        // reservations never change what existing indices read
        if !a.check_all(ctx, Lvl::BASIC, "reserve-visible") {
            break;
        }
    }
    ctx.end_history();
}

fn merge_twin<E: Entry>(ctx: &mut Ctx) {
    let h = ctx.hist_no;
    let kind = kind_for(h);
    let pool: Vec<E::V> = <E::V as Val>::gen_run(&mut ctx.rng, Dom::new(kind), 24);
    let nsrc = (h % 4) as usize; // 0, 1, 2, 3 sources
    let first = pool[ctx.rng.below(pool.len())].clone();
    let mut sources: Vec<E::R> = Vec::new();
    let mut covered: Vec<E::V> = Vec::new();
    for s in 0..nsrc {
        let mode = ctx.rng.below(5);
        let k = if mode == 0 { 0 } else { ctx.rng.range(1, 12) };
        let mut vals: Vec<E::V> = (0..k).map(|_| pool[ctx.rng.below(pool.len())].clone()).collect();
        if mode == 1 && k > 0 {
            // the source ends in the item that will be pushed first into the merged region
            vals.push(first.clone());
            ctx.cover("merge:source-ends-in-first-item");
        }
        let src = if mode == 2 && !sources.is_empty() {
            // an ancestor chain: a region that was itself merged from the earlier sources
            let refs: Vec<&E::R> = sources.iter().collect();
            match panics::catch(|| {
                let mut r = E::R::merge_regions(refs.iter().copied());
                let mut aux = E::R::default();
                for v in &covered {
                    let _ = E::push(&mut r, v, 0, &mut aux);
                }
                r
            }) {
                Ok(r) => {
                    ctx.cover("merge:ancestor");
                    ctx.log(format!("source{s} = merge_regions(earlier sources) fed the {} values they contain", covered.len()));
                    Some(r)
                }
                Err(p) => {
                    ctx.fail_panic("merge_regions", &p);
                    ctx.end_history();
                    return;
                }
            }
        } else {
            ctx.log(format!("source{s} = default fed {} values", vals.len()));
            covered.extend(vals.iter().cloned());
            source_region::<E>(&vals)
        };
        if let Some(src) = src {
            sources.push(src);
        }
    }
    // chain: the region is sized from a single ancestor that itself was merged from the
    // sources and absorbed their contents again (grand-parents are not among the sources)
    if !sources.is_empty() && ctx.rng.chance(1, 4) {
        let refs: Vec<&E::R> = sources.iter().collect();
        match panics::catch(|| {
            let mut r = E::R::merge_regions(refs.iter().copied());
            let mut aux = E::R::default();
            for v in &covered {
                let _ = E::push(&mut r, v, 0, &mut aux);
            }
            r
        }) {
            Ok(r) => {
                ctx.log(format!("chain = merge_regions(sources) fed the {} values they contain; only the chain is a source now", covered.len()));
                ctx.cover("merge:chain");
                sources = vec![r];
            }
            Err(p) => {
                ctx.fail_panic("merge_regions", &p);
                ctx.end_history();
                return;
            }
        }
    }
    let refs: Vec<&E::R> = sources.iter().collect();
    let Some(mut m) = merged::<E>(ctx, "merged", &refs) else {
        ctx.end_history();
        return;
    };
    ctx.cover(&format!("merge:{}:{}", E::label(), match sources.len() { 0 => "0", 1 => "1", _ => "2+" }));
    let mut t = Live::<E>::new("fresh");
    let nforms = Live::<E>::nforms();
    let n = ctx.rng.range(1, 16);
    for k in 0..n {
        let v = if k == 0 { first.clone() } else { draw::<E>(ctx, &pool, m.issued.last().map(|x| &x.1)) };
        let form = ctx.rng.below(nforms);
        if E::coded() {
            // within the acceptance contract: values the sources contained must be accepted, and
            // so must their siblings - values the sources never saw but whose first bytes /
            // symbols they did see at the same place (stored literally by a dictionary codec)
            let as_sibling = !covered.is_empty() && k > 0 && ctx.rng.chance(1, 3);
            let v = if as_sibling {
                ctx.cover("merge:sibling-of-covered-value");
                covered[ctx.rng.below(covered.len())].sibling()
            } else {
                v
            };
            let is_covered = as_sibling || covered.iter().any(|c| c.same(&v));
            match m.try_push(ctx, &v, form) {
                Ok(_) => {
                    ctx.nontrivial = true;
                    let k = m.issued.len() - 1;
                    if !m.check_one(ctx, k, Lvl::BASIC, "merged-reads") {
                        break;
                    }
                }
                Err(p) => {
                    if is_covered {
                        ctx.fail_panic("push-into-merged", &p);
                    } else {
                        ctx.hit("refusals_of_uncovered_values");
                    }
                    break;
                }
            }
        } else {
            if !push_both(ctx, &mut m, &mut t, &v, form, form, "merged-vs-default", "merged region vs. Default::default()") {
                break;
            }
            ctx.nontrivial = true;
        }
        if !m.check_all(ctx, Lvl::BASIC, "merged-reads") {
            break;
        }
    }
    ctx.end_history();
}

pub fn run_stack<E: Entry, S: IdxC<Idx<E>>>(ctx: &mut Ctx) {
    if ctx.what == "stack-chain" {
        return super::chain::run_stack::<E, S>(ctx, super::chain::Fin::Presize, "stack-presize-chain");
    }
    let kind = kind_for(ctx.hist_no / 3);
    let pool: Vec<E::V> = <E::V as Val>::gen_run(&mut ctx.rng, Dom::new(kind), 20);
    let nforms = E::form_names().len();
    let mode = ctx.rng.below(2);
    let mut a: LiveStack<E, S> = if mode == 0 {
        let n = *ctx.rng.pick(&[0usize, 1, 5, 1000]);
        ctx.log(format!("a = FlatStack<{}, {}>::with_capacity({n})", E::label(), S::KIND));
        match panics::catch(|| Stack::<E, S>::with_capacity(n)) {
            Ok(fs) => LiveStack::from_stack("a", fs),
            Err(p) => {
                ctx.fail_panic("with_capacity", &p);
                ctx.end_history();
                return;
            }
        }
    } else {
        // merge_capacity over 0..2 stacks
        let k = ctx.rng.below(3);
        let mut stacks: Vec<LiveStack<E, S>> = Vec::new();
        for _ in 0..k {
            let mut s = LiveStack::<E, S>::new("src");
            for _ in 0..ctx.rng.below(10) {
                let v = pool[ctx.rng.below(pool.len())].clone();
                if !s.copy(ctx, &v, 0) {
                    ctx.end_history();
                    return;
                }
            }
            stacks.push(s);
        }
        ctx.log(format!("a = FlatStack::merge_capacity({k} stacks)"));
        let refs: Vec<&Stack<E, S>> = stacks.iter().map(|s| &s.fs).collect();
        match panics::catch(|| Stack::<E, S>::merge_capacity(refs.iter().copied())) {
            Ok(fs) => {
                let mut l = LiveStack::from_stack("a", fs);
                // values the sources held (needed to stay inside coded regions' contract)
                l.model.clear();
                if E::coded() {
                    let held: Vec<E::V> = stacks.iter().flat_map(|s| s.model.iter().cloned()).collect();
                    if held.is_empty() {
                        ctx.cover(&format!("stack-presize:{}", E::label()));
                        ctx.end_history();
                        return;
                    }
                    // restrict the pool below
                    let mut a = l;
                    if a.fs.len() != 0 || !a.fs.is_empty() {
                        ctx.fail("merged-stack-not-empty", format!("merge_capacity returned a stack of len {}", a.fs.len()));
                    } else {
                        for _ in 0..ctx.rng.range(1, 10) {
                            let v = held[ctx.rng.below(held.len())].clone();
                            if !{ let f__ = ctx.rng.below(nforms); a.copy(ctx, &v, f__) } || !a.check_all_get(ctx, Lvl::BASIC, "merged-stack-reads") {
                                break;
                            }
                            ctx.nontrivial = true;
                        }
                    }
                    ctx.cover(&format!("stack-presize:{}", E::label()));
                    ctx.end_history();
                    return;
                }
                l
            }
            Err(p) => {
                ctx.fail_panic("merge_capacity", &p);
                ctx.end_history();
                return;
            }
        }
    };
    if a.fs.len() != 0 || !a.fs.is_empty() {
        ctx.fail("presized-stack-not-empty", format!("a pre-sized stack reports len {} / is_empty {}", a.fs.len(), a.fs.is_empty()));
        ctx.end_history();
        return;
    }
    let mut t = LiveStack::<E, S>::new("plain");
    for _ in 0..ctx.rng.range(1, 14) {
        if ctx.rng.chance(1, 5) {
            let n = *ctx.rng.pick(&[0usize, 3, 500]);
            ctx.log(format!("a.reserve({n})"));
            let fs = &mut a.fs;
            if let Err(p) = panics::catch(|| fs.reserve(n)) {
                ctx.fail_panic("stack-reserve", &p);
                break;
            }
        }
        let v = pool[ctx.rng.below(pool.len())].clone();
        let form = ctx.rng.below(nforms);
        if !a.copy(ctx, &v, form) || !t.copy(ctx, &v, form) {
            break;
        }
        ctx.nontrivial = true;
        if a.fs.len() != t.fs.len() {
            ctx.fail("presized-stack-len", format!("pre-sized stack has len {}, plain one {}", a.fs.len(), t.fs.len()));
            break;
        }
        if !a.check_all_get(ctx, Lvl::BASIC, "presized-stack-reads") {
            break;
        }
    }
    ctx.cover(&format!("stack-presize:{}", E::label()));
    ctx.end_history();
}
