//! C13 — read-item accessors expose exactly their own item and fail-stop out of bounds.

use super::c02::LiveStack;
use super::{entry_jobs, stack_jobs, Plan, PropDef};
use crate::check::Lvl;
use crate::driver::{Ctx, Job, Tier};
use crate::entry::{Entry, Idx, IdxC};
use crate::live::Live;
use crate::panics;
use crate::val::{Dom, Kind, Same, Val};
use flatcontainer::{IntoOwned, Region};

pub const DEF: PropDef = PropDef {
    id: "C13",
    jobs,
    required,
    rule: "one case = a region of a slice / columns composition filled with >= 3 adjacent items (empty items between non-empty ones); for every read item, at every nesting depth, in both representations (region-backed and borrow_as(&owned)): get(i) for every i < len equals the model element, get(len), get(len+1), get(len+7) and get(usize::MAX) must each panic, iteration yields exactly len elements and is_empty == (len == 0). Same for FlatStack::get with every index container. Non-trivial = at least one out-of-bounds probe on an item that has a successor in the region; distinct = distinct hash of (entry, operation list).",
    assumptions: &["a panic is the only accepted outcome for an out-of-range position; returning any value is a violation"],
};

fn positional(d: &crate::registry::Dyn) -> bool {
    d.label.contains("slice<") || d.label.contains("columns<") || d.label.starts_with("pref<((Vec")
}

fn jobs(plan: &Plan) -> Vec<Job> {
    let t = plan.tier;
    let mut v = entry_jobs(plan, "C13", "accessors", t.pick(100, 5000, 1), positional);
    v.extend(stack_jobs(plan, "C13", "stack-get", t.pick(12, 300, 0), |_| true));
    v
}

fn required(plan: &Plan) -> Vec<String> {
    if plan.tier == Tier::Miri {
        return vec![];
    }
    let mut v = Vec::new();
    for d in plan.reg.iter().filter(|d| positional(d)) {
        v.push(format!("oob-with-successor:{}", d.label));
        v.push(format!("borrowed:{}", d.label));
    }
    for d in plan.reg {
        v.push(format!("stack-get:{}", d.label));
    }
    v
}

pub fn run<E: Entry>(ctx: &mut Ctx) {
    let kind = [Kind::Tiny, Kind::Hostile][(ctx.hist_no % 2) as usize];
    let n = ctx.rng.range(3, if ctx.tier == Tier::Miri { 4 } else { 12 });
    let pool: Vec<E::V> = <E::V as Val>::gen_run(&mut ctx.rng, Dom::new(kind), n);
    let trained = E::coded() && ctx.hist_no % 4 >= 2;
    let live = if trained { Live::<E>::trained("r", ctx, &pool) } else { Some(Live::<E>::new("r")) };
    let Some(mut live) = live else {
        ctx.end_history();
        return;
    };
    let nforms = Live::<E>::nforms();
    for v in &pool {
        if { let f__ = ctx.rng.below(nforms); live.push(ctx, v, f__) }.is_none() {
            ctx.end_history();
            return;
        }
    }
    let before = crate::check::OOB_PROBES.with(|c| c.get());
    // region-backed: first, middle and last items all get probed (all but the last have a successor)
    for k in 0..live.issued.len() {
        if !live.check_one(ctx, k, Lvl::OOB, "accessor") {
            ctx.end_history();
            return;
        }
    }
    let probes = crate::check::OOB_PROBES.with(|c| c.get()) - before;
    if probes > 4 {
        ctx.cover(&format!("oob-with-successor:{}", E::label()));
        ctx.nontrivial = true;
    }
    // owned-borrowed representation
    for (k, v) in pool.iter().enumerate() {
        let res = panics::catch(|| {
            let item: <E::R as Region>::ReadItem<'_> = IntoOwned::borrow_as(v);
            E::check(item, v, Lvl::OOB)
        });
        match res {
            Ok(Ok(())) => {}
            Ok(Err(e)) => {
                ctx.fail("accessor-borrowed", format!("borrow_as(&{}) (item #{k}): {e}", v.render()));
                break;
            }
            Err(p) => {
                ctx.fail(&format!("accessor-borrowed:panic:{}", p.file()), format!("accessors of borrow_as(&{}) panicked: {}", v.render(), p.short()));
                break;
            }
        }
    }
    ctx.cover(&format!("borrowed:{}", E::label()));
    ctx.end_history();
}

pub fn run_stack<E: Entry, S: IdxC<Idx<E>>>(ctx: &mut Ctx) {
    let n = ctx.rng.range(0, 20);
    let pool: Vec<E::V> = <E::V as Val>::gen_run(&mut ctx.rng, Dom::new(Kind::Hostile), n.max(1));
    let mut st = LiveStack::<E, S>::new("fs");
    ctx.log(format!("fs = FlatStack<{}, {}>::default()", E::label(), S::KIND));
    for k in 0..n {
        let f__ = ctx.rng.below(E::form_names().len());
        if !st.copy(ctx, &pool[k], f__) {
            ctx.end_history();
            return;
        }
        let len = st.model.len();
        let fs = &st.fs;
        for i in [len, len + 1, len + 7, usize::MAX] {
            ctx.count("stack_oob_probes", 1);
            if !panics::panics(|| {
                let _ = fs.get(i);
            }) {
                ctx.fail("stack-oob", format!("FlatStack<{}, {}>::get({i}) on a stack of {len} items returned instead of panicking", E::label(), S::KIND));
                ctx.end_history();
                return;
            }
        }
        if !st.check_all_get(ctx, Lvl::OOB, "stack-accessor") {
            ctx.end_history();
            return;
        }
        // len, is_empty and iteration agree with get
        if fs.len() != len || fs.is_empty() != (len == 0) {
            ctx.fail("stack-len", format!("FlatStack<{}, {}>: get(i) succeeds for exactly {len} positions but len() = {} and is_empty() = {}", E::label(), S::KIND, fs.len(), fs.is_empty()));
            ctx.end_history();
            return;
        }
        let model = &st.model;
        let walked = panics::catch(|| {
            let mut n = 0usize;
            for (i, item) in fs.iter().enumerate() {
                if i >= model.len() {
                    return Err(format!("iteration yields more than {} items", model.len()));
                }
                E::check(item, &model[i], Lvl::BASIC).map_err(|e| format!("item {i} of the iteration differs from get({i}): {e}"))?;
                n += 1;
            }
            if n != model.len() {
                return Err(format!("iteration yields {n} items, get(i) succeeds for {}", model.len()));
            }
            crate::check::adaptors_checked(|| fs.iter(), model.len(), "iter()", &|k, x| E::check(x, &model[k], Lvl::BASIC))?;
            Ok(())
        });
        match walked {
            Ok(Ok(())) => {}
            Ok(Err(e)) => {
                ctx.fail("stack-iter", format!("FlatStack<{}, {}>: {e}", E::label(), S::KIND));
                ctx.end_history();
                return;
            }
            Err(p) => {
                ctx.fail_panic("stack-iter", &p);
                ctx.end_history();
                return;
            }
        }
        ctx.nontrivial = true;
    }
    ctx.cover(&format!("stack-get:{}", E::label()));
    ctx.end_history();
}
