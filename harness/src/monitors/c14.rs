//! C14 — IntoOwned laws hold and items copy faithfully between regions.

use super::util::*;
use super::{entry_jobs, Plan, PropDef};
use crate::check::Lvl;
use crate::driver::{Ctx, Job, Tier};
use crate::entry::{Entry, Idx};
use crate::live::Live;
use crate::panics;
use crate::val::{Dom, Kind, Same, Val};
use flatcontainer::{IntoOwned, Region};

pub const DEF: PropDef = PropDef {
    id: "C14",
    jobs,
    required,
    rule: "one case = a region of one catalogue entry filled with a short history; for every read item x with model value v: into_owned(x) == v; borrow_as(&v) passes the full accessor sweep against v; clone_onto(x, t) leaves t == v for targets t drawn from the entry's own generators (default-like, shorter, longer, other Option/Result variant, unrelated nested values) and from other items of the region; reborrow(x) passes the sweep; pushing x itself (region-backed) and borrow_as(&v) into a second region of the same type in an arbitrary prior state yields an item that passes the sweep against v. Non-trivial = at least one clone_onto onto a target that differs from v; distinct = distinct hash of (entry, operation list, targets).",
    assumptions: &["equality of owned values is bit-exact (floats by bit pattern, 0.0/-0.0 identified)"],
};

fn jobs(plan: &Plan) -> Vec<Job> {
    entry_jobs(plan, "C14", "laws", plan.tier.pick(80, 3000, 1), |_| true)
}

fn required(plan: &Plan) -> Vec<String> {
    if plan.tier == Tier::Miri {
        return vec![];
    }
    let mut v = Vec::new();
    for d in plan.reg {
        v.push(format!("laws:{}", d.label));
        if d.forms.iter().any(|f| *f == "read-item(region)") {
            v.push(format!("region-to-region:{}:region-backed", d.label));
        }
        if d.forms.iter().any(|f| *f == "read-item(borrowed)") {
            v.push(format!("region-to-region:{}:borrowed", d.label));
        }
    }
    for c in ["target-shorter", "target-longer", "target-differs"] {
        v.push(format!("clone_onto:{c}"));
    }
    v
}

pub fn run<E: Entry>(ctx: &mut Ctx) {
    let h = ctx.hist_no;
    let kind = kind_for(h);
    let n = ctx.rng.range(1, if ctx.tier == Tier::Miri { 4 } else { 10 });
    let pool: Vec<E::V> = <E::V as Val>::gen_run(&mut ctx.rng, Dom::new(kind), n);
    let trained = E::coded() && (h / 3) % 2 == 1;
    let live = if trained { Live::<E>::trained("r", ctx, &pool) } else { Some(Live::<E>::new("r")) };
    let Some(mut live) = live else {
        ctx.end_history();
        return;
    };
    let nforms = Live::<E>::nforms();
    let names = E::form_names();
    for v in &pool {
        if { let f__ = ctx.rng.below(nforms); live.push(ctx, v, f__) }.is_none() {
            ctx.end_history();
            return;
        }
    }
    // a second region in an arbitrary prior state, for region-to-region pushes
    let mut other = if trained { Live::<E>::trained("other", ctx, &pool) } else { Some(Live::<E>::new("other")) };
    if let Some(o) = other.as_mut() {
        for _ in 0..ctx.rng.below(4) {
            let v = pool[ctx.rng.below(pool.len())].clone();
            if o.push(ctx, &v, 0).is_none() {
                ctx.end_history();
                return;
            }
        }
    }
    let Some(mut other) = other else {
        ctx.end_history();
        return;
    };
    for k in 0..live.issued.len() {
        let (idx, v) = live.issued[k].clone();
        // targets for clone_onto
        let mut targets: Vec<E::V> = Vec::new();
        targets.push(<E::V as Val>::gen(&mut ctx.rng, Dom::new(Kind::Tiny)));
        targets.push(<E::V as Val>::gen(&mut ctx.rng, Dom::new(Kind::Hostile)));
        targets.push(<E::V as Val>::gen(&mut ctx.rng, Dom::new(Kind::Long)));
        targets.push(pool[ctx.rng.below(pool.len())].clone());
        targets.push(v.clone());
        let r = &live.r;
        let res = panics::catch(|| -> Result<Vec<&'static str>, String> {
            let mut classes = Vec::new();
            // into_owned
            let o = r.index(idx).into_owned();
            if !o.same(&v) {
                return Err(format!("into_owned gives {}, pushed {}", o.render(), v.render()));
            }
            // borrow_as
            let b: <E::R as Region>::ReadItem<'_> = IntoOwned::borrow_as(&v);
            E::check(b, &v, Lvl { oob: false, debug: false, consume_str: false }).map_err(|e| format!("borrow_as(&owned): {e}"))?;
            let b: <E::R as Region>::ReadItem<'_> = IntoOwned::borrow_as(&o);
            E::check(b, &v, Lvl::BASIC).map_err(|e| format!("borrow_as(&into_owned(x)): {e}"))?;
            // reborrow
            E::check(<E::R as Region>::reborrow(r.index(idx)), &v, Lvl::BASIC).map_err(|e| format!("reborrow: {e}"))?;
            // clone_onto
            for t in &targets {
                let mut t2 = t.clone();
                r.index(idx).clone_onto(&mut t2);
                if !t2.same(&v) {
                    return Err(format!("clone_onto a target holding {} left {}, expected {}", t.render(), t2.render(), v.render()));
                }
                if !t.same(&v) {
                    classes.push("target-differs");
                }
                if t.width() < v.width() {
                    classes.push("target-shorter");
                }
                if t.width() > v.width() {
                    classes.push("target-longer");
                }
                // and from the borrowed representation
                let mut t3 = t.clone();
                let b: <E::R as Region>::ReadItem<'_> = IntoOwned::borrow_as(&v);
                b.clone_onto(&mut t3);
                if !t3.same(&v) {
                    return Err(format!("clone_onto (from borrow_as) a target holding {} left {}, expected {}", t.render(), t3.render(), v.render()));
                }
            }
            Ok(classes)
        });
        ctx.log(format!("laws of r.index({}) == {} against {} clone_onto targets", E::idx_render(&idx), v.render(), targets.len()));
        match res {
            Ok(Ok(classes)) => {
                for c in classes {
                    ctx.cover(&format!("clone_onto:{c}"));
                    if c == "target-differs" {
                        ctx.nontrivial = true;
                    }
                }
            }
            Ok(Err(e)) => {
                ctx.fail("law", format!("item #{k}: {e}"));
                break;
            }
            Err(p) => {
                ctx.fail(&format!("law:panic:{}", p.file()), format!("item #{k} ({}): {}", v.render(), p.short()));
                break;
            }
        }
        // region-to-region: x itself and a borrow of its owned form
        let mut bad = false;
        for (f, name) in names.iter().enumerate() {
            let class = match *name {
                "read-item(region)" => "region-backed",
                "read-item(borrowed)" => "borrowed",
                _ => continue,
            };
            // the pushed read item is taken from the region under test itself (it re-absorbs v
            // and hands out the item), so encoded -> encoded and raw -> encoded paths are driven
            let dst = &mut other.r;
            let srcr = &mut live.r;
            match panics::catch(|| E::push(dst, &v, f, srcr)) {
                Ok(i2) => {
                    ctx.log(format!("other.push[{name} taken from r]({}) -> {}", v.render(), E::idx_render(&i2)));
                    other.issued.push((i2, v.clone()));
                }
                Err(p) => {
                    ctx.fail_panic("region-to-region-push", &p);
                    bad = true;
                    break;
                }
            }
            let last = other.issued.len() - 1;
            if !other.check_one(ctx, last, Lvl::BASIC, "region-to-region") {
                bad = true;
                break;
            }
            ctx.cover(&format!("region-to-region:{}:{class}", E::label()));
        }
        if bad {
            break;
        }
    }
    ctx.cover(&format!("laws:{}", E::label()));
    ctx.end_history();
}
