//! C02 — append-only stability: an issued index keeps reading the same item after any later
//! push, reservation or internal growth.

use super::{entry_jobs, stack_jobs, Plan, PropDef};
use crate::check::Lvl;
use crate::driver::{Ctx, Job, Tier};
use crate::entry::{Entry, Idx, IdxC, Stack};
use crate::live::{gen_pool, heap_of, Live};
use crate::panics;
use crate::val::{Dom, Kind, Same, Val};
use flatcontainer::Region;

pub const DEF: PropDef = PropDef {
    id: "C02",
    jobs,
    required,
    rule: "one case = one history of push (any form) / reserve_items / reserve_regions (and, for FlatStacks, copy / reserve / reserve_items / reserve_regions) on one catalogue entry. Short histories (<= 64 ops) re-read ALL issued indices after every operation; long ones re-read all every 16th operation and 8 random ones after each; the bounded-exhaustive workload enumerates every history of length <= L over {push a, push b, push c, reserve_items, reserve_regions} on 14 small entries. Non-trivial = at least one re-read of an index issued before a later operation; distinct = distinct hash of (entry, operation list).",
    assumptions: &[
        "growth mechanisms are reached through the workloads listed in the coverage classes (reallocation, stride->spill, u32->u64, Huffman partial byte, wider rows, collapsed pushes)",
        "HuffmanContainer::reserve_regions is todo!() in the crate and is not called",
    ],
};

pub const EXHAUSTIVE: [&str; 14] = [
    "string",
    "owned<u8>",
    "pairs<string,optimized>",
    "collapse<string>",
    "collapse<pairs<string,list>>",
    "slice<string>",
    "slice<mirror<usize>,optimized>",
    "columns<string>",
    "columns<mirror<u8>,list>",
    "option<string>",
    "result<string,mirror<u8>>",
    "huffman<u8>",
    "vec<u32>",
    "tuple(mirror<u64>,collapse<owned<()>>,collapse<string>)",
];

pub const MARATHON: [&str; 10] = [
    "string",
    "pairs<string,optimized>",
    "collapse<pairs<string,list>>",
    "slice<mirror<u8>>",
    "slice<pairs<string>,optimized>",
    "columns<mirror<u8>,optimized>",
    "columns<string>",
    "option<string>",
    "huffman<u8>",
    "codec-dict",
];

fn ex_len(tier: Tier) -> u64 {
    tier.pick(5, 6, 2)
}

fn jobs(plan: &Plan) -> Vec<Job> {
    let t = plan.tier;
    let mut v = entry_jobs(plan, "C02", "short", t.pick(40, 600, 1), |_| true);
    v.extend(entry_jobs(plan, "C02", "long", t.pick(2, 24, 0), |_| true));
    v.extend(entry_jobs(plan, "C02", "exhaustive", ex_len(t) + 1, |d| EXHAUSTIVE.contains(&d.label)));
    v.extend(stack_jobs(plan, "C02", "stack", t.pick(10, 120, 0), |_| true));
    // marathon: tens of thousands of pushes (counters wider than 8 / 16 bits, many reallocations)
    v.extend(entry_jobs(plan, "C02", "marathon", t.pick(1, 3, 0), |d| MARATHON.contains(&d.label)));
    v
}

fn required(plan: &Plan) -> Vec<String> {
    if plan.tier == Tier::Miri {
        return vec![];
    }
    let mut v: Vec<String> = vec![
        "growth:realloc-with-live-indices".into(),
        "growth:index-spill".into(),
        "growth:u64-offsets".into(),
        "growth:huffman-unaligned-start".into(),
        "growth:wider-row".into(),
        "growth:collapsed-push".into(),
        "op:reserve_items".into(),
        "op:reserve_regions".into(),
        "op:stack-reserve".into(),
        "foreign-push:refused".into(),
    ];
    for d in plan.reg {
        v.push(format!("entry:{}", d.label));
    }
    for e in EXHAUSTIVE {
        v.push(format!("exhaustive:{e}"));
    }
    v
}

/// Coverage accounting for the growth mechanisms named in the statement (not a verdict).
struct Growth {
    max_width: usize,
    rows: usize,
    weight: u128,
}

fn note_growth<E: Entry>(ctx: &mut Ctx, live: &Live<E>, before: Option<crate::live::Heap>, g: &mut Growth) {
    let n = live.issued.len();
    if n == 0 {
        return;
    }
    let (idx, v) = &live.issued[n - 1];
    if n >= 2 {
        if let (Some(b), Some(a)) = (before, live.heap()) {
            if a.cap != b.cap {
                ctx.cover("growth:realloc-with-live-indices");
            }
            if E::label() == "slice<mirror<usize>,optimized>" && b.used == 0 && a.used > 0 {
                ctx.cover("growth:index-spill");
            }
        }
        let (pidx, pv) = &live.issued[n - 2];
        if E::collapse_top() && E::idx_same(idx, pidx) && v.peq(pv) && !E::label().contains("mirror") {
            ctx.cover("growth:collapsed-push");
        }
    }
    let w = v.width();
    if g.rows > 0 && w > g.max_width && E::dense() && E::label().starts_with("columns") {
        ctx.cover("growth:wider-row");
    }
    g.max_width = g.max_width.max(w);
    g.rows += 1;
    if E::label().starts_with("pairs<owned<()>") {
        let before_w = g.weight;
        g.weight += w as u128;
        if before_w > 0 && before_w <= u32::MAX as u128 && g.weight > u32::MAX as u128 {
            ctx.cover("growth:u64-offsets");
        }
    }
    if E::label() == "huffman<u8>" || E::label() == "pairs<huffman<u8>>" {
        let r = E::idx_render(idx);
        if let Some(start) = r.trim_start_matches('(').split(',').next().and_then(|s| s.trim().parse::<usize>().ok()) {
            if start % 8 != 0 {
                ctx.cover("growth:huffman-unaligned-start");
            }
        }
    }
}

/// Builds a source region for reserve_regions from a few values.
fn source_region<E: Entry>(vals: &[E::V]) -> Option<E::R> {
    panics::catch(|| {
        let mut r = E::R::default();
        let mut aux = E::R::default();
        for v in vals {
            let _ = E::push(&mut r, v, 0, &mut aux);
        }
        r
    })
    .ok()
}

fn do_reserve_regions<E: Entry>(ctx: &mut Ctx, live: &mut Live<E>, sources: &[E::R], with_self: bool) -> bool {
    let self_clone = if with_self { E::clone_r(&live.r) } else { None };
    let r = &mut live.r;
    let res = panics::catch(|| {
        let it = sources.iter().chain(self_clone.iter());
        r.reserve_regions(it);
    });
    ctx.log(format!("{}.reserve_regions({} sources{})", live.tag, sources.len(), if self_clone.is_some() { " + clone of self" } else { "" }));
    match res {
        Ok(()) => {
            ctx.cover("op:reserve_regions");
            true
        }
        Err(p) => {
            ctx.fail_panic("reserve_regions", &p);
            false
        }
    }
}

fn do_reserve_items<E: Entry>(ctx: &mut Ctx, live: &mut Live<E>, vals: &[E::V]) -> bool {
    let r = &mut live.r;
    let which = ctx.rng.below(E::reserve_form_count().max(1));
    let res = panics::catch(|| E::reserve_items_form(r, vals, which));
    match res {
        Ok(done) => {
            if done {
                ctx.log(format!("{}.reserve_items[form {which}]({} values)", live.tag, vals.len()));
                ctx.cover("op:reserve_items");
            }
            true
        }
        Err(p) => {
            ctx.log(format!("{}.reserve_items({} values) PANICKED", live.tag, vals.len()));
            ctx.fail_panic("reserve_items", &p);
            false
        }
    }
}

pub fn run<E: Entry>(ctx: &mut Ctx) {
    match ctx.what.as_str() {
        "short" => random_history::<E>(ctx, false),
        "long" => random_history::<E>(ctx, true),
        "exhaustive" => exhaustive::<E>(ctx),
        "marathon" => marathon::<E>(ctx),
        w => panic!("harness: unknown C02 workload {w}"),
    }
}

fn random_history<E: Entry>(ctx: &mut Ctx, long: bool) {
    let h = ctx.hist_no;
    let kind = [Kind::Hostile, Kind::Tiny, Kind::Long][(h % 3) as usize];
    let trained = E::coded() && (h / 3) % 2 == 1;
    let nops = if long {
        ctx.tier.pick(300, 2500, 20) as usize
    } else if ctx.tier == Tier::Miri {
        8
    } else {
        ctx.rng.range(2, 64)
    };
    let kind = if long && kind == Kind::Long { Kind::Hostile } else { kind };
    let pool = gen_pool::<E>(ctx, Dom::new(kind), nops.min(if long { 400 } else { 64 }));
    let live = if trained { Live::<E>::trained("r", ctx, &pool) } else { Some(Live::<E>::new("r")) };
    let Some(mut live) = live else {
        ctx.nontrivial = true;
        ctx.end_history();
        return;
    };
    if (h / 6) % 2 == 1 {
        // the region that read items are taken from holds other items too
        let other = gen_pool::<E>(ctx, Dom::new(Kind::Hostile), 5);
        live.prefill_aux(&other);
    }
    let nforms = Live::<E>::nforms();
    let mut g = Growth { max_width: 0, rows: 0, weight: 0 };
    let mut rereads = 0u64;
    for op in 0..nops {
        let choice = ctx.rng.below(20);
        let before = live.heap();
        let ok = if choice < 15 || live.issued.is_empty() {
            let v = &pool[ctx.rng.below(pool.len())];
            let v = if !live.issued.is_empty() && ctx.rng.chance(1, 5) { live.issued[live.issued.len() - 1].1.clone() } else { v.clone() };
            let form = ctx.rng.below(nforms);
            let ok = live.push(ctx, &v, form).is_some();
            if ok {
                note_growth(ctx, &live, before, &mut g);
            }
            ok
        } else if choice < 17 {
            let k = ctx.rng.range(0, 6);
            let vals: Vec<E::V> = (0..k).map(|_| pool[ctx.rng.below(pool.len())].clone()).collect();
            do_reserve_items(ctx, &mut live, &vals)
        } else if E::can_reserve_regions() {
            let nsrc = ctx.rng.below(3);
            let mut sources = Vec::new();
            for _ in 0..nsrc {
                let k = ctx.rng.range(0, 5);
                let vals: Vec<E::V> = (0..k).map(|_| pool[ctx.rng.below(pool.len())].clone()).collect();
                if let Some(s) = source_region::<E>(&vals) {
                    sources.push(s);
                }
            }
            let with_self = ctx.rng.chance(1, 3);
            do_reserve_regions(ctx, &mut live, &sources, with_self)
        } else {
            true
        };
        if !ok {
            break;
        }
        let n = live.issued.len();
        if n > 1 {
            ctx.nontrivial = true;
        }
        if !long || op % 16 == 15 || op + 1 == nops {
            let lvl = if op % 8 == 0 { Lvl { oob: false, debug: false, consume_str: false } } else { Lvl::BASIC };
            rereads += n as u64;
            if !live.check_all(ctx, lvl, "stability") {
                break;
            }
        } else if n > 0 {
            let mut bad = false;
            for _ in 0..8 {
                let k = ctx.rng.below(n);
                rereads += 1;
                if !live.check_one(ctx, k, Lvl::BASIC, "stability") {
                    bad = true;
                    break;
                }
            }
            if bad {
                break;
            }
        }
    }
    // a trained coded region finally receives values foreign to its statistics: it may refuse
    // them (C06 / C07; the history ends there), but an index it does return is an issued index
    // like any other - it reads the pushed item, and the earlier ones are untouched
    if trained && !ctx.failed {
        let foreign = gen_pool::<E>(ctx, Dom::new(Kind::Hostile), 3);
        for v in &foreign {
            let form = ctx.rng.below(nforms);
            match live.try_push(ctx, v, form) {
                Ok(_) => {
                    ctx.cover("foreign-push:accepted");
                    if !live.check_all(ctx, Lvl::BASIC, "stability") {
                        break;
                    }
                }
                Err(_) => {
                    ctx.cover("foreign-push:refused");
                    break;
                }
            }
        }
    }
    ctx.count("rereads", rereads);
    ctx.cover(&format!("entry:{}", E::label()));
    ctx.end_history();
}

/// Many pushes of small values; sampled re-reads on the way, a full sweep at the end.
fn marathon<E: Entry>(ctx: &mut Ctx) {
    let n = ctx.tier.pick(70_000, 300_000, 50) as usize;
    let pool = gen_pool::<E>(ctx, Dom::new(Kind::Tiny), 64);
    let trained = E::coded() && ctx.hist_no % 2 == 1;
    let live = if trained { Live::<E>::trained("r", ctx, &pool) } else { Some(Live::<E>::new("r")) };
    let Some(mut live) = live else {
        ctx.end_history();
        return;
    };
    ctx.log(format!("{n} pushes of values from a pool of {} (form 0), 4 sampled re-reads after each, full sweep every 16384 and at the end", pool.len()));
    let mut aux = E::R::default();
    for k in 0..n {
        let v = &pool[(k * 7 + k / 64) % pool.len()];
        let r = &mut live.r;
        match panics::catch(|| E::push(r, v, 0, &mut aux)) {
            Ok(idx) => live.issued.push((idx, v.clone())),
            Err(p) => {
                ctx.log(format!("push #{k} of {} PANICKED", v.render()));
                ctx.fail_panic("push", &p);
                break;
            }
        }
        let len = live.issued.len();
        let mut bad = false;
        for j in 0..4 {
            let pick = if j == 0 { len - 1 } else { ctx.rng.below(len) };
            if !live.check_one(ctx, pick, Lvl::BASIC, "stability") {
                bad = true;
                break;
            }
        }
        if bad {
            break;
        }
        if k % 16384 == 16383 && !live.check_all(ctx, Lvl::BASIC, "stability") {
            break;
        }
    }
    if !ctx.failed {
        live.check_all(ctx, Lvl::BASIC, "stability");
    }
    ctx.count("marathon_pushes", live.issued.len() as u64);
    ctx.nontrivial = true;
    ctx.end_history();
}

/// All histories of length `hist_no` over {push a, push b, push c, reserve_items, reserve_regions}.
fn exhaustive<E: Entry>(ctx: &mut Ctx) {
    let len = ctx.hist_no as u32;
    let mut rng = crate::rng::Rng::derive(1, &["c02-exhaustive-values", E::label()], 0);
    let dom = Dom::new(Kind::Tiny);
    let a = <E::V as Val>::gen(&mut rng, dom);
    let mut b = <E::V as Val>::gen(&mut rng, dom);
    for _ in 0..20 {
        if !b.same(&a) {
            break;
        }
        b = <E::V as Val>::gen(&mut rng, dom);
    }
    let mut c = <E::V as Val>::gen(&mut rng, Dom::new(Kind::Hostile));
    for _ in 0..20 {
        if !c.same(&a) && !c.same(&b) {
            break;
        }
        c = <E::V as Val>::gen(&mut rng, Dom::new(Kind::Hostile));
    }
    let letters = [a.clone(), b.clone(), c.clone()];
    let src = source_region::<E>(&[a.clone(), b.clone()]);
    let total = 5u64.pow(len);
    let nforms = Live::<E>::nforms();
    for code in 0..total {
        let mut live = Live::<E>::new("r");
        let mut x = code;
        for step in 0..len {
            let letter = (x % 5) as usize;
            x /= 5;
            let ok = match letter {
                0..=2 => live.push(ctx, &letters[letter], (code as usize + step as usize) % nforms).is_some(),
                3 => do_reserve_items(ctx, &mut live, &[a.clone(), b.clone()]),
                _ => {
                    if E::can_reserve_regions() {
                        let sources: Vec<E::R> = Vec::new();
                        match &src {
                            Some(s) => {
                                // reserve for the prepared source and a clone of self
                                let self_clone = E::clone_r(&live.r);
                                let r = &mut live.r;
                                let res = panics::catch(|| r.reserve_regions(std::iter::once(s).chain(self_clone.iter())));
                                ctx.log(format!("r.reserve_regions([src(a,b){}])", if self_clone.is_some() { ", clone of self" } else { "" }));
                                match res {
                                    Ok(()) => {
                                        ctx.cover("op:reserve_regions");
                                        true
                                    }
                                    Err(p) => {
                                        ctx.fail_panic("reserve_regions", &p);
                                        false
                                    }
                                }
                            }
                            None => do_reserve_regions(ctx, &mut live, &sources, true),
                        }
                    } else {
                        true
                    }
                }
            };
            if !ok {
                break;
            }
            if live.issued.len() > 1 {
                ctx.nontrivial = true;
            }
            if !live.check_all(ctx, Lvl::BASIC, "stability") {
                break;
            }
        }
        ctx.count("exhaustive_histories", 1);
        ctx.end_history();
    }
    ctx.cover(&format!("exhaustive:{}", E::label()));
    if len as u64 == ex_len(ctx.tier) {
        ctx.count("exhaustive_max_len", len as u64);
    }
}

// ---------------------------------------------------------------- FlatStack

pub struct LiveStack<E: Entry, S: IdxC<Idx<E>>> {
    pub fs: Stack<E, S>,
    pub aux: E::R,
    pub model: Vec<E::V>,
    pub tag: &'static str,
}

impl<E: Entry, S: IdxC<Idx<E>>> LiveStack<E, S> {
    pub fn new(tag: &'static str) -> Self {
        LiveStack { fs: Stack::<E, S>::default(), aux: E::R::default(), model: Vec::new(), tag }
    }
    pub fn from_stack(tag: &'static str, fs: Stack<E, S>) -> Self {
        LiveStack { fs, aux: E::R::default(), model: Vec::new(), tag }
    }
    pub fn copy(&mut self, ctx: &mut Ctx, v: &E::V, form: usize) -> bool {
        if self.model.len() % 48 == 47 {
            self.aux.clear();
        }
        let fs = &mut self.fs;
        let aux = &mut self.aux;
        match panics::catch(|| E::fs_copy(fs, v, form, aux)) {
            Ok(()) => {
                ctx.log(format!("{}.copy[{}]({})", self.tag, E::form_names()[form], v.render()));
                self.model.push(v.clone());
                true
            }
            Err(p) => {
                ctx.log(format!("{}.copy[{}]({}) PANICKED", self.tag, E::form_names()[form], v.render()));
                ctx.fail_panic("copy", &p);
                false
            }
        }
    }
    pub fn check_get(&self, ctx: &mut Ctx, i: usize, lvl: Lvl, kind: &str) -> bool {
        let fs = &self.fs;
        let v = &self.model[i];
        match panics::catch(|| E::check(fs.get(i), v, lvl)) {
            Ok(Ok(())) => true,
            Ok(Err(e)) => {
                ctx.fail(kind, format!("{}.get({i}) of {} should read {}: {e}", self.tag, self.model.len(), v.render()));
                false
            }
            Err(p) => {
                ctx.fail(&format!("{kind}:read-panic:{}", p.file()), format!("{}.get({i}) of {} panicked: {}", self.tag, self.model.len(), p.short()));
                false
            }
        }
    }
    pub fn check_all_get(&self, ctx: &mut Ctx, lvl: Lvl, kind: &str) -> bool {
        (0..self.model.len()).all(|i| self.check_get(ctx, i, lvl, kind))
    }
}

pub fn run_stack<E: Entry, S: IdxC<Idx<E>>>(ctx: &mut Ctx) {
    let h = ctx.hist_no;
    let kind = [Kind::Hostile, Kind::Tiny][((h / 3) % 2) as usize];
    let nops = ctx.rng.range(2, 48);
    let pool = gen_pool::<E>(ctx, Dom::new(kind), nops);
    let mut st = LiveStack::<E, S>::new("fs");
    ctx.log(format!("fs = FlatStack<{}, {}>::default()", E::label(), S::KIND));
    let nforms = E::form_names().len();
    for _ in 0..nops {
        let choice = ctx.rng.below(20);
        let ok = if choice < 14 || st.model.is_empty() {
            let v = pool[ctx.rng.below(pool.len())].clone();
            let form = ctx.rng.below(nforms);
            st.copy(ctx, &v, form)
        } else if choice < 16 {
            let n = *ctx.rng.pick(&[0usize, 1, 7, 100, 4096]);
            let fs = &mut st.fs;
            let r = panics::catch(|| fs.reserve(n));
            ctx.log(format!("fs.reserve({n})"));
            ctx.cover("op:stack-reserve");
            match r {
                Ok(()) => true,
                Err(p) => {
                    ctx.fail_panic("stack-reserve", &p);
                    false
                }
            }
        } else if choice < 18 {
            let k = ctx.rng.range(0, 5);
            let vals: Vec<E::V> = (0..k).map(|_| pool[ctx.rng.below(pool.len())].clone()).collect();
            let fs = &mut st.fs;
            match panics::catch(|| E::fs_reserve_items(fs, &vals)) {
                Ok(done) => {
                    if done {
                        ctx.log(format!("fs.reserve_items({k} values)"));
                    }
                    true
                }
                Err(p) => {
                    ctx.fail_panic("stack-reserve_items", &p);
                    false
                }
            }
        } else if E::can_reserve_regions() {
            let k = ctx.rng.range(0, 4);
            let vals: Vec<E::V> = (0..k).map(|_| pool[ctx.rng.below(pool.len())].clone()).collect();
            match source_region::<E>(&vals) {
                Some(src) => {
                    let fs = &mut st.fs;
                    let r = panics::catch(|| fs.reserve_regions(std::iter::once(&src)));
                    ctx.log(format!("fs.reserve_regions([source of {k} values])"));
                    match r {
                        Ok(()) => true,
                        Err(p) => {
                            ctx.fail_panic("stack-reserve_regions", &p);
                            false
                        }
                    }
                }
                None => true,
            }
        } else {
            true
        };
        if !ok {
            break;
        }
        if st.model.len() > 1 {
            ctx.nontrivial = true;
        }
        ctx.count("rereads", st.model.len() as u64);
        if !st.check_all_get(ctx, Lvl::BASIC, "stack-stability") {
            break;
        }
    }
    ctx.cover(&format!("stack:{}:{}", E::label(), S::KIND));
    ctx.end_history();
}
