//! C06 — Huffman container: exact decode at every bit alignment, optimal code lengths.

use super::{standalone, Plan, PropDef};
use crate::driver::{Ctx, Job, Tier};
use crate::panics;
use crate::rng::Rng;
use flatcontainer::impls::huffman_container::HuffmanContainer;
use flatcontainer::{IntoOwned, Push, Region};
use std::collections::BTreeMap;
use std::fmt::Debug;

pub const DEF: PropDef = PropDef {
    id: "C06",
    jobs,
    required,
    rule: "one case = one frequency profile (symbol -> count) realised in 1..3 raw source containers, HuffmanContainer::merge_regions over them, and a sequence of items pushed into the result. Code lengths are measured as the bit width of the index returned for a one-symbol item; then: every length >= 1, Kraft sum <= 1, sum(count*length) equals the optimal prefix-code cost computed by an independent reference; every pushed item occupies exactly the sum of its symbols' code lengths in bits (index end - start); the item, its predecessor, the first item and a random earlier item are decoded (bounded iteration, into_owned) after every push and all items at the end; a symbol outside the statistics must be refused by a panic at push; default and cleared containers round-trip arbitrary symbols; Push<read item> from raw and encoded containers, after which each receiver is merged on its own and the resulting code must be optimal for the symbol counts of everything pushed into it. Bounded-exhaustive: all profiles over 1..K symbols with counts from {1,2,3,5,8}, each with all items of length <= 3 (thorough: 4) and all pairs of items of length <= 2. Special profiles: 2^k and 2^k+1 equal counts, Fibonacci counts over 12..22 symbols (codes up to 21 bits), 257..1000 equiprobable u16 symbols, three generations of merge_regions. Non-trivial = at least one encoded item of >= 2 symbols decoded after a later push; distinct = distinct (profile, item sequence).",
    assumptions: &[
        "HuffmanContainer::reserve_regions and ::heap_size are todo!() in the crate and are not called",
        "the state after a refused push is unspecified; nothing is read from the container afterwards",
    ],
};

const COUNTS: [i64; 5] = [1, 2, 3, 5, 8];

fn max_alpha(t: Tier) -> u64 {
    t.pick(4, 5, 2)
}

fn jobs(plan: &Plan) -> Vec<Job> {
    let t = plan.tier;
    let mut v = Vec::new();
    // exhaustive: one job per (alphabet size, count of first symbol, count of second symbol)
    for k in 1..=max_alpha(t) {
        for c0 in 0..5u64 {
            for c1 in 0..(if k >= 2 { 5u64 } else { 1 }) {
                v.push(standalone("huffman<u8>", "exhaustive", (k << 16) | (c0 << 8) | c1, exhaustive));
            }
        }
    }
    for h in 0..t.pick(28, 420, 2) {
        v.push(standalone("huffman", "special", h, special));
    }
    for h in 0..t.pick(400, 40000, 3) {
        v.push(standalone("huffman", "random", h, random));
    }
    for h in 0..t.pick(40, 2000, 1) {
        v.push(standalone("huffman", "raw", h, raw_mode));
    }
    v
}

fn required(plan: &Plan) -> Vec<String> {
    if plan.tier == Tier::Miri {
        return vec![];
    }
    let mut v = Vec::new();
    for s in 0..8 {
        for e in 0..8 {
            v.push(format!("align:{s}-{e}"));
        }
    }
    for c in [
        "whole-bytes:0",
        "whole-bytes:1",
        "whole-bytes:2+",
        "code>=17bits",
        "code:9..16bits",
        "alphabet:1",
        "alphabet:>256",
        "empty-item-in-encoded",
        "empty-alphabet",
        "refusal",
        "generations:3",
        "generations:source-cleared-and-refilled",
        "generations:encoded-cleared-and-refilled",
        "push-read-item:raw->encoded",
        "push-read-item:encoded->encoded",
        "push-read-item:encoded->raw",
        "push-read-item:next-generation",
        "raw:default",
        "raw:after-clear",
        "exhaustive:complete",
    ] {
        v.push(c.to_string());
    }
    v
}

/// Optimal prefix-code cost (total bits) for the given counts, with at least one bit per symbol.
pub fn optimal_cost(counts: &[i64]) -> i64 {
    let mut c: Vec<i64> = counts.iter().copied().filter(|&x| x > 0).collect();
    if c.is_empty() {
        return 0;
    }
    if c.len() == 1 {
        return c[0];
    }
    let mut total = 0;
    // simple O(n^2) two-smallest merging (alphabets are small); sorted descending, pop from the end
    c.sort_unstable_by(|a, b| b.cmp(a));
    while c.len() > 1 {
        let a = c.pop().unwrap();
        let b = c.pop().unwrap();
        let m = a + b;
        total += m;
        let pos = c.partition_point(|&x| x > m);
        c.insert(pos, m);
    }
    total
}

pub trait Sym: Ord + Clone + Debug + Copy + 'static {
    fn from_u(x: usize) -> Self;
}
impl Sym for u8 {
    fn from_u(x: usize) -> Self {
        x as u8
    }
}
impl Sym for u16 {
    fn from_u(x: usize) -> Self {
        x as u16
    }
}

/// An encoded container under observation.
struct Enc<B: Sym> {
    h: HuffmanContainer<B>,
    cursor: usize,
    lens: BTreeMap<B, usize>,
    issued: Vec<((usize, usize), Vec<B>)>,
    name: String,
}

fn decode_bounded<B: Sym>(h: &HuffmanContainer<B>, idx: (usize, usize), want: &[B]) -> Result<(), String> {
    let item = h.index(idx);
    match item.decode() {
        Ok(iter) => {
            let mut n = 0;
            for (i, s) in iter.take(want.len() + 1).enumerate() {
                if i >= want.len() {
                    return Err(format!("decoder yields more than the {} pushed symbols", want.len()));
                }
                if *s != want[i] {
                    return Err(format!("symbol {i} decodes as {:?}, pushed {:?}", s, want[i]));
                }
                n += 1;
            }
            if n != want.len() {
                return Err(format!("decoder yields {n} symbols, {} were pushed", want.len()));
            }
        }
        Err(raw) => {
            if raw != want {
                return Err(format!("raw symbols {:?} differ from the pushed {:?}", &raw[..raw.len().min(8)], &want[..want.len().min(8)]));
            }
        }
    }
    let owned: Vec<B> = h.index(idx).into_owned();
    if owned != want {
        return Err("into_owned differs from the pushed symbols".into());
    }
    Ok(())
}

impl<B: Sym> Enc<B> {
    /// Realises `profile` in `nsrc` raw sources and merges them. `None` (with a violation
    /// recorded) if merge_regions panics.
    fn build(ctx: &mut Ctx, name: &str, profile: &BTreeMap<B, i64>, nsrc: usize) -> Option<Self> {
        let mut sources: Vec<HuffmanContainer<B>> = (0..nsrc.max(1)).map(|_| HuffmanContainer::default()).collect();
        let mut k = 0usize;
        for (sym, count) in profile {
            // spread the occurrences over the sources, in items of varying length
            let mut left = *count as usize;
            while left > 0 {
                let take = (1 + (k * 7) % 5).min(left);
                let item: Vec<B> = vec![*sym; take];
                let which = k % sources.len();
                let _ = sources[which].push(&item);
                left -= take;
                k += 1;
            }
        }
        ctx.log(format!("{name} = merge_regions({} raw sources realising {} symbols, counts {:?})", sources.len(), profile.len(), profile.values().take(12).collect::<Vec<_>>()));
        match panics::catch(|| HuffmanContainer::merge_regions(sources.iter())) {
            Ok(h) => Some(Enc { h, cursor: 0, lens: BTreeMap::new(), issued: Vec::new(), name: name.to_string() }),
            Err(p) => {
                ctx.fail(&format!("merge-panic:{}", p.file()), format!("merge_regions over a profile of {} symbols panicked: {}", profile.len(), p.short()));
                None
            }
        }
    }

    /// Pushes an item that the statistics cover; checks the index arithmetic.
    fn push(&mut self, ctx: &mut Ctx, item: &[B], form: usize) -> bool {
        let h = &mut self.h;
        let res = panics::catch(|| match form % 3 {
            0 => h.push(item),
            1 => h.push(item.to_vec()),
            _ => h.push(&item.to_vec()),
        });
        let idx = match res {
            Ok(i) => i,
            Err(p) => {
                ctx.log(format!("{}.push({:?}) PANICKED", self.name, &item[..item.len().min(16)]));
                ctx.fail(&format!("push-panic:{}", p.file()), format!("pushing {:?} (all symbols are in the statistics) panicked: {}", &item[..item.len().min(16)], p.short()));
                return false;
            }
        };
        if self.issued.len() < 40 {
            ctx.log(format!("{}.push({:?}) -> {:?}", self.name, &item[..item.len().min(16)], idx));
        }
        if idx.1 < idx.0 {
            ctx.fail("cursor", format!("index {:?} ends before it starts", idx));
            return false;
        }
        if !self.lens.is_empty() && item.iter().all(|s| self.lens.contains_key(s)) {
            let want: usize = item.iter().map(|s| self.lens[s]).sum();
            if idx.1 - idx.0 != want {
                ctx.fail("item-bits", format!("item {:?} occupies {} bits, its symbols' code lengths sum to {want}", &item[..item.len().min(16)], idx.1 - idx.0));
                return false;
            }
        }
        self.cursor = idx.1;
        self.issued.push((idx, item.to_vec()));
        // coverage classes
        let (s, e) = idx;
        if e > s {
            ctx.cover(&format!("align:{}-{}", s % 8, e % 8));
            let first_whole = (s + 7) / 8;
            let last_whole = e / 8;
            let whole = last_whole.saturating_sub(first_whole);
            ctx.cover(match whole {
                0 => "whole-bytes:0",
                1 => "whole-bytes:1",
                _ => "whole-bytes:2+",
            });
        } else if item.is_empty() {
            ctx.cover("empty-item-in-encoded");
        }
        true
    }

    fn check(&self, ctx: &mut Ctx, k: usize) -> bool {
        let (idx, want) = &self.issued[k];
        let h = &self.h;
        match panics::catch(|| decode_bounded(h, *idx, want)) {
            Ok(Ok(())) => {
                ctx.count("items_decoded", 1);
                true
            }
            Ok(Err(e)) => {
                ctx.fail("decode", format!("{}: item #{k} {:?} at bits {:?} (of {} items): {e}", self.name, &want[..want.len().min(16)], idx, self.issued.len()));
                false
            }
            Err(p) => {
                ctx.fail(&format!("decode-panic:{}", p.file()), format!("{}: decoding item #{k} {:?} at bits {:?} panicked: {}", self.name, &want[..want.len().min(16)], idx, p.short()));
                false
            }
        }
    }

    /// After a push: the new item, its neighbour (shares a partial byte), the first item and a random one.
    fn check_recent(&self, ctx: &mut Ctx, rng: &mut Rng) -> bool {
        let n = self.issued.len();
        if n == 0 {
            return true;
        }
        let mut ks = vec![n - 1];
        if n >= 2 {
            ks.push(n - 2);
            ks.push(0);
            ks.push(rng.below(n));
            if self.issued[n - 1].1.len() >= 2 || self.issued[n - 2].1.len() >= 2 {
                ctx.nontrivial = true;
            }
        }
        ks.iter().all(|&k| self.check(ctx, k))
    }

    fn check_all(&self, ctx: &mut Ctx) -> bool {
        (0..self.issued.len()).all(|k| self.check(ctx, k))
    }

    /// Measures every symbol's code length and checks optimality against the profile.
    fn measure(&mut self, ctx: &mut Ctx, profile: &BTreeMap<B, i64>) -> bool {
        for sym in profile.keys() {
            if !self.push(ctx, &[*sym], 0) {
                return false;
            }
            let (s0, e0) = self.issued[self.issued.len() - 1].0;
            let len = e0 - s0;
            self.lens.insert(*sym, len);
            if len == 0 {
                ctx.fail("zero-length-code", format!("symbol {:?} has a 0-bit code", sym));
                return false;
            }
            if len >= 17 {
                ctx.cover("code>=17bits");
            } else if len >= 9 {
                ctx.cover("code:9..16bits");
            }
        }
        // Kraft
        let maxlen = self.lens.values().copied().max().unwrap_or(0);
        if maxlen > 120 {
            ctx.fail("code-lengths", format!("a code length of {maxlen} bits was measured"));
            return false;
        }
        let kraft: u128 = self.lens.values().map(|l| 1u128 << (maxlen - l)).sum();
        if kraft > (1u128 << maxlen) {
            ctx.fail("not-a-prefix-code", format!("code lengths {:?} violate the Kraft inequality", self.lens.values().collect::<Vec<_>>()));
            return false;
        }
        let cost: i64 = profile.iter().map(|(s, c)| c * self.lens[s] as i64).sum();
        let counts: Vec<i64> = profile.values().copied().collect();
        let best = optimal_cost(&counts);
        if cost != best {
            ctx.fail(
                "not-optimal",
                format!("code lengths {:?} for counts {:?} cost {cost} bits; an optimal prefix code costs {best}", self.lens.values().take(24).collect::<Vec<_>>(), &counts[..counts.len().min(24)]),
            );
            return false;
        }
        if !self.check_all(ctx) {
            return false;
        }
        true
    }

    /// A symbol outside the statistics must be refused. Consumes the container.
    fn expect_refusal(mut self, ctx: &mut Ctx, outsider: B) {
        let item = vec![outsider];
        let h = &mut self.h;
        match panics::catch(|| h.push(&item)) {
            Err(_) => {
                ctx.cover("refusal");
                ctx.count("refusals", 1);
            }
            Ok(idx) => {
                ctx.log(format!("{}.push([{:?}]) -> {:?}", self.name, outsider, idx));
                ctx.fail("unknown-symbol-accepted", format!("symbol {:?} does not occur in the statistics, yet push returned {:?} instead of panicking", outsider, idx));
            }
        }
    }
}

/// All profiles over k symbols with counts from COUNTS (first two fixed by the job).
fn exhaustive(ctx: &mut Ctx) {
    let code = ctx.hist_no;
    let k = (code >> 16) as usize;
    let c0 = ((code >> 8) & 0xff) as usize;
    let c1 = (code & 0xff) as usize;
    let free = k.saturating_sub(2);
    let mut rng = Rng::derive(ctx.seed, &["c06-exhaustive"], code);
    for rest in 0..5usize.pow(free as u32) {
        let mut counts = vec![COUNTS[c0]];
        if k >= 2 {
            counts.push(COUNTS[c1]);
        }
        let mut x = rest;
        for _ in 0..free {
            counts.push(COUNTS[x % 5]);
            x /= 5;
        }
        // symbols are spread over the byte range so that codes are not tied to symbol values
        let syms: Vec<u8> = (0..k).map(|i| (i * 61 + 3) as u8).collect();
        let profile: BTreeMap<u8, i64> = syms.iter().copied().zip(counts.iter().copied()).collect();
        let nsrc = 1 + rest % 3;
        let Some(mut e) = Enc::<u8>::build(ctx, "h", &profile, nsrc) else {
            ctx.end_history();
            continue;
        };
        if k == 1 {
            ctx.cover("alphabet:1");
        }
        let mut ok = e.measure(ctx, &profile);
        // all items of length <= 3, each preceded by whatever the cursor alignment happens to be
        let mut items: Vec<Vec<u8>> = vec![vec![]];
        let maxitem = if ctx.tier == Tier::Thorough { 4usize } else { 3 };
        for len in 1..=maxitem {
            for c in 0..k.pow(len as u32) {
                let mut it = Vec::new();
                let mut y = c;
                for _ in 0..len {
                    it.push(syms[y % k]);
                    y /= k;
                }
                items.push(it);
            }
        }
        for (n, it) in items.iter().enumerate() {
            if !ok {
                break;
            }
            ok = e.push(ctx, it, n) && e.check_recent(ctx, &mut rng);
        }
        // all ordered pairs of items of length <= 2
        let short: Vec<&Vec<u8>> = items.iter().filter(|i| i.len() <= 2).collect();
        'pairs: for a in &short {
            for b in &short {
                if !ok {
                    break 'pairs;
                }
                ok = e.push(ctx, a, 1) && e.push(ctx, b, 2) && e.check_recent(ctx, &mut rng);
            }
        }
        if ok {
            ok = e.check_all(ctx);
        }
        if ok {
            e.expect_refusal(ctx, 255);
        }
        ctx.rep.nontrivial_counted += 1;
        ctx.count("exhaustive_profiles", 1);
        ctx.rep.evaluations += 1;
        if ctx.rep.samples.len() < 2 {
            ctx.rep.samples.push(serde_json::json!({"profile": format!("{:?}", profile), "items_pushed": items.len() + 2 * short.len() * short.len(), "sources": nsrc}));
        }
        ctx.log.clear();
        ctx.failed = false;
    }
    ctx.cover("exhaustive:complete");
}

fn fib(n: usize) -> i64 {
    let (mut a, mut b) = (1i64, 1i64);
    for _ in 0..n {
        let c = a + b;
        a = b;
        b = c;
    }
    a
}

fn random_items<B: Sym>(rng: &mut Rng, syms: &[B], weights: &[i64], n: usize, maxlen: usize) -> Vec<Vec<B>> {
    let total: i64 = weights.iter().sum();
    (0..n)
        .map(|_| {
            let len = match rng.below(6) {
                0 => 0,
                1 => 1,
                _ => rng.range(0, maxlen),
            };
            (0..len)
                .map(|_| {
                    if rng.chance(1, 3) {
                        syms[rng.below(syms.len())]
                    } else {
                        let mut x = (rng.next() % total as u64) as i64;
                        let mut pick = syms[0];
                        for (s, w) in syms.iter().zip(weights) {
                            if x < *w {
                                pick = *s;
                                break;
                            }
                            x -= w;
                        }
                        pick
                    }
                })
                .collect()
        })
        .collect()
}

fn drive<B: Sym>(ctx: &mut Ctx, profile: &BTreeMap<B, i64>, nsrc: usize, nitems: usize, maxlen: usize, outsider: Option<B>) -> Option<Enc<B>> {
    let mut rng = Rng::derive(ctx.seed, &["c06-drive", &ctx.what], ctx.hist_no);
    let mut e = Enc::<B>::build(ctx, "h", profile, nsrc)?;
    if profile.is_empty() {
        ctx.cover("empty-alphabet");
        // only the empty item is within the statistics
        for _ in 0..3 {
            if !e.push(ctx, &[], 0) || !e.check_recent(ctx, &mut rng) {
                return None;
            }
        }
        return Some(e);
    }
    if profile.len() == 1 {
        ctx.cover("alphabet:1");
    }
    if profile.len() > 256 {
        ctx.cover("alphabet:>256");
    }
    if !e.measure(ctx, profile) {
        return None;
    }
    let syms: Vec<B> = profile.keys().copied().collect();
    let weights: Vec<i64> = profile.values().copied().collect();
    for (n, it) in random_items(&mut rng, &syms, &weights, nitems, maxlen).iter().enumerate() {
        if !e.push(ctx, it, n) || !e.check_recent(ctx, &mut rng) {
            return None;
        }
    }
    if !e.check_all(ctx) {
        return None;
    }
    if let Some(o) = outsider {
        if !profile.contains_key(&o) {
            let e2 = Enc { h: e.h.clone(), cursor: e.cursor, lens: e.lens.clone(), issued: e.issued.clone(), name: "h-clone".into() };
            e2.expect_refusal(ctx, o);
        }
    }
    Some(e)
}

fn special(ctx: &mut Ctx) {
    let h = ctx.hist_no;
    match h % 14 {
        0 | 1 => {
            // equal counts over 2^k and 2^k + 1 symbols
            let k = 1 + (h / 14) % 7;
            let n = (1usize << k) + (h % 2) as usize;
            let profile: BTreeMap<u8, i64> = (0..n.min(256)).map(|i| (i as u8, 3)).collect();
            drive(ctx, &profile, 2, 30, 12, Some(255).filter(|_| n < 255));
        }
        2 | 3 => {
            // Fibonacci counts: code depths up to n - 1 bits
            let n = 12 + ((h / 14) as usize * 2 + (h % 2) as usize) % 11;
            let profile: BTreeMap<u8, i64> = (0..n).map(|i| (i as u8 * 5, fib(i))).collect();
            drive(ctx, &profile, 1 + (h as usize % 3), 40, 40, Some(251));
        }
        4 | 5 => {
            // more than 256 equiprobable u16 symbols: every code is longer than one byte
            let n = [257usize, 300, 512, 1000][((h / 14) as usize + (h % 2) as usize) % 4];
            let profile: BTreeMap<u16, i64> = (0..n).map(|i| (i as u16 * 3 + 1, 2)).collect();
            drive(ctx, &profile, 3, 25, 10, Some(0));
        }
        6 => {
            // empty alphabet: merged from nothing / from empty sources
            let profile: BTreeMap<u8, i64> = BTreeMap::new();
            drive(ctx, &profile, (h / 14) as usize % 3, 0, 0, None);
        }
        7 => {
            // single symbol
            let profile: BTreeMap<u8, i64> = [(7u8, 1 + (h / 14) as i64 % 9)].into_iter().collect();
            drive(ctx, &profile, 1, 20, 30, Some(8));
        }
        8 | 9 => generations(ctx),
        10 | 11 => push_read_items(ctx),
        12 => {
            // long items containing several whole aligned bytes
            let profile: BTreeMap<u8, i64> = [(1u8, 10), (2, 9), (3, 1), (4, 1)].into_iter().collect();
            drive(ctx, &profile, 1, 40, 60, Some(9));
        }
        _ => {
            // skewed u16 alphabet with a long tail
            let profile: BTreeMap<u16, i64> = (0..400usize).map(|i| (i as u16 * 7, if i < 4 { 5000 } else { 1 })).collect();
            drive(ctx, &profile, 2, 30, 20, Some(3));
        }
    }
    ctx.end_history();
}

fn random(ctx: &mut Ctx) {
    let mut rng = Rng::derive(ctx.seed, &["c06-random-profile"], ctx.hist_no);
    let k = match rng.below(5) {
        0 => rng.range(1, 3),
        1 => rng.range(3, 9),
        2 => rng.range(9, 40),
        3 => rng.range(40, 256),
        _ => rng.range(1, 256),
    };
    let skew = rng.below(4);
    let mut profile: BTreeMap<u8, i64> = BTreeMap::new();
    while profile.len() < k {
        let s = rng.next() as u8;
        let c = match skew {
            0 => 1 + rng.below(3) as i64,
            1 => 1 + rng.below(1000) as i64,
            2 => 1i64 << rng.below(16),
            _ => 1 + (rng.next() % 50) as i64 * (rng.next() % 50) as i64,
        };
        profile.insert(s, c);
    }
    // keep the source regions small
    let total: i64 = profile.values().sum();
    if total > 60_000 {
        for c in profile.values_mut() {
            *c = (*c * 60_000 / total).max(1);
        }
    }
    let outsider = (0..=255u8).find(|s| !profile.contains_key(s));
    drive(ctx, &profile, 1 + rng.below(3), rng.range(5, 60), rng.range(1, 30), outsider);
    ctx.end_history();
}

/// Three generations: the statistics of generation g are the pushes into generation g - 1.
fn generations(ctx: &mut Ctx) {
    let mut rng = Rng::derive(ctx.seed, &["c06-generations"], ctx.hist_no);
    let syms: Vec<u8> = vec![10, 20, 30, 40, 50, 60];
    let mut weights: Vec<i64> = vec![20, 10, 5, 3, 1, 1];
    let mut prev: Vec<HuffmanContainer<u8>> = Vec::new();
    // generation 0: raw
    let mut raw = HuffmanContainer::<u8>::default();
    // every other history: the raw source held other data (a symbol that never comes back,
    // and a reversed frequency profile) and was cleared; statistics start over at a clear
    let recycled = ctx.hist_no % 2 == 1;
    if recycled {
        let junk_syms: Vec<u8> = vec![99, 60, 50, 40, 30, 20, 10];
        let junk_w: Vec<i64> = vec![40, 20, 10, 5, 3, 1, 1];
        for it in random_items(&mut rng, &junk_syms, &junk_w, 30, 10) {
            let _ = raw.push(&it);
        }
        raw.clear();
        ctx.log("generation 0: a raw container that held other data (heavy symbol 99) and was cleared".into());
        ctx.cover("generations:source-cleared-and-refilled");
    }
    let mut counts: BTreeMap<u8, i64> = BTreeMap::new();
    for it in random_items(&mut rng, &syms, &weights, 40, 10) {
        for s in &it {
            *counts.entry(*s).or_insert(0) += 1;
        }
        let _ = raw.push(&it);
    }
    prev.push(raw);
    for g in 1..=3 {
        ctx.log(format!("generation {g} = merge_regions([generation {}])", g - 1));
        let h = match panics::catch(|| HuffmanContainer::merge_regions(prev.iter().rev().take(1))) {
            Ok(h) => h,
            Err(p) => {
                ctx.fail(&format!("merge-panic:{}", p.file()), format!("generation {g}: {}", p.short()));
                return;
            }
        };
        let mut e = Enc { h, cursor: 0, lens: BTreeMap::new(), issued: Vec::new(), name: format!("gen{g}") };
        // the code must be optimal for what was pushed into the previous generation
        let profile = counts.clone();
        if profile.is_empty() {
            return;
        }
        if !e.measure(ctx, &profile) {
            return;
        }
        // pushes into this generation (restricted to covered symbols) define the next statistics;
        // the measuring pushes above count too
        let covered: Vec<u8> = profile.keys().copied().collect();
        let mut next: BTreeMap<u8, i64> = covered.iter().map(|s| (*s, 1)).collect();
        weights.rotate_left(1);
        let w: Vec<i64> = covered.iter().enumerate().map(|(i, _)| weights[i % weights.len()]).collect();
        for (n, it) in random_items(&mut rng, &covered, &w, 30, 12).iter().enumerate() {
            for s in it {
                *next.entry(*s).or_insert(0) += 1;
            }
            if !e.push(ctx, it, n) || !e.check_recent(ctx, &mut rng) {
                return;
            }
        }
        if !e.check_all(ctx) {
            return;
        }
        if recycled && g == 1 {
            // a symbol that only the cleared-away data held is outside the statistics
            let mut probe = e.h.clone();
            match panics::catch(|| probe.push(&vec![99u8])) {
                Err(_) => ctx.cover("refusal"),
                Ok(idx) => {
                    ctx.fail("unknown-symbol-accepted", format!("symbol 99 was only pushed before the source was cleared, yet the merged container accepted it ({idx:?})"));
                    return;
                }
            }
        }
        if recycled && g == 2 {
            // clear the encoded generation: it is raw again and its statistics start over
            e.h.clear();
            ctx.log("generation 2 cleared and refilled raw".into());
            next = BTreeMap::new();
            let w2: Vec<i64> = covered.iter().enumerate().map(|(i, _)| weights[(i + 3) % weights.len()]).collect();
            for it in random_items(&mut rng, &covered, &w2, 30, 12) {
                for s in &it {
                    *next.entry(*s).or_insert(0) += 1;
                }
                let _ = e.h.push(&it);
            }
            ctx.cover("generations:encoded-cleared-and-refilled");
        }
        counts = next;
        prev.push(e.h);
        if g == 3 {
            ctx.cover("generations:3");
        }
    }
}

/// Push<read item>: raw -> encoded, encoded -> encoded, encoded -> raw.
fn push_read_items(ctx: &mut Ctx) {
    let mut rng = Rng::derive(ctx.seed, &["c06-read-items"], ctx.hist_no);
    let profile: BTreeMap<u8, i64> = [(1u8, 9), (2, 5), (3, 2), (4, 1), (5, 1)].into_iter().collect();
    let syms: Vec<u8> = profile.keys().copied().collect();
    let weights: Vec<i64> = profile.values().copied().collect();
    let Some(mut a) = Enc::<u8>::build(ctx, "a", &profile, 1) else { return };
    let Some(mut b) = Enc::<u8>::build(ctx, "b", &profile, 2) else { return };
    if !a.measure(ctx, &profile) || !b.measure(ctx, &profile) {
        return;
    }
    let mut raw = HuffmanContainer::<u8>::default();
    let mut raw_issued: Vec<((usize, usize), Vec<u8>)> = Vec::new();
    for it in random_items(&mut rng, &syms, &weights, 24, 14) {
        // raw -> encoded
        let ri = raw.push(&it);
        raw_issued.push((ri, it.clone()));
        let res = panics::catch(|| a.h.push(raw.index(ri)));
        match res {
            Ok(idx) => {
                ctx.log(format!("a.push(raw.index({:?}) = {:?}) -> {:?}", ri, &it, idx));
                a.cursor = idx.1;
                a.issued.push((idx, it.clone()));
                ctx.cover("push-read-item:raw->encoded");
            }
            Err(p) => {
                ctx.fail(&format!("push-panic:{}", p.file()), format!("pushing a raw read item {:?} into an encoded container panicked: {}", it, p.short()));
                return;
            }
        }
        if !a.check_recent(ctx, &mut rng) {
            return;
        }
        // encoded -> encoded
        let (ai, _) = a.issued[a.issued.len() - 1];
        let res = panics::catch(|| b.h.push(a.h.index(ai)));
        match res {
            Ok(idx) => {
                ctx.log(format!("b.push(a.index({:?})) -> {:?}", ai, idx));
                if idx.1 - idx.0 != ai.1 - ai.0 {
                    ctx.fail("item-bits", format!("copying an encoded item between containers with the same code: source occupies bits {:?}, destination bits {:?}", ai, idx));
                    return;
                }
                b.cursor = idx.1;
                b.issued.push((idx, it.clone()));
                ctx.cover("push-read-item:encoded->encoded");
            }
            Err(p) => {
                ctx.fail(&format!("push-panic:{}", p.file()), format!("pushing an encoded read item into an encoded container panicked: {}", p.short()));
                return;
            }
        }
        if !b.check_recent(ctx, &mut rng) {
            return;
        }
        // encoded -> raw
        let res = panics::catch(|| raw.push(a.h.index(ai)));
        match res {
            Ok(idx) => {
                raw_issued.push((idx, it.clone()));
                ctx.cover("push-read-item:encoded->raw");
            }
            Err(p) => {
                ctx.fail(&format!("push-panic:{}", p.file()), format!("pushing an encoded read item into a raw container panicked: {}", p.short()));
                return;
            }
        }
        for (i, want) in raw_issued.iter().rev().take(3) {
            if let Err(e) = decode_bounded(&raw, *i, want) {
                ctx.fail("decode", format!("raw container: {e}"));
                return;
            }
        }
    }
    if !(a.check_all(ctx) && b.check_all(ctx)) {
        return;
    }
    // What read-item pushes recorded feeds the next code: each receiver, merged on its own, must
    // yield a code that is optimal for everything pushed into it (slices and read items alike).
    let a_items: Vec<Vec<u8>> = a.issued.iter().map(|(_, it)| it.clone()).collect();
    let b_items: Vec<Vec<u8>> = b.issued.iter().map(|(_, it)| it.clone()).collect();
    let raw_items: Vec<Vec<u8>> = raw_issued.iter().map(|(_, it)| it.clone()).collect();
    for (name, h, items) in [("next(a)", &a.h, &a_items), ("next(b)", &b.h, &b_items), ("next(raw)", &raw, &raw_items)] {
        let mut want: BTreeMap<u8, i64> = BTreeMap::new();
        for it in items {
            for s in it {
                *want.entry(*s).or_insert(0) += 1;
            }
        }
        ctx.log(format!("{name} = merge_regions over the receiver of read items; pushed symbol counts {:?}", want));
        let h = match panics::catch(|| HuffmanContainer::merge_regions(std::iter::once(h))) {
            Ok(h) => h,
            Err(p) => {
                ctx.fail(&format!("merge-panic:{}", p.file()), format!("{name}: {}", p.short()));
                return;
            }
        };
        let mut e = Enc { h, cursor: 0, lens: BTreeMap::new(), issued: Vec::new(), name: name.to_string() };
        if !e.measure(ctx, &want) {
            return;
        }
    }
    ctx.cover("push-read-item:next-generation");
}

/// Before any merge and after clear the container stores raw symbols and round-trips everything.
fn raw_mode(ctx: &mut Ctx) {
    let mut rng = Rng::derive(ctx.seed, &["c06-raw"], ctx.hist_no);
    let all: Vec<u16> = (0..2000).map(|_| rng.next() as u16).collect();
    let w = vec![1i64; all.len()];
    let start_encoded = ctx.hist_no % 2 == 1;
    let mut h: HuffmanContainer<u16> = if start_encoded {
        let profile: BTreeMap<u16, i64> = [(1u16, 3), (2, 2), (3, 1)].into_iter().collect();
        let Some(mut e) = Enc::<u16>::build(ctx, "h", &profile, 1) else {
            ctx.end_history();
            return;
        };
        if !e.measure(ctx, &profile) {
            ctx.end_history();
            return;
        }
        let mut h = e.h;
        h.clear();
        ctx.log("h.clear()".into());
        ctx.cover("raw:after-clear");
        h
    } else {
        ctx.cover("raw:default");
        HuffmanContainer::default()
    };
    let mut issued: Vec<((usize, usize), Vec<u16>)> = Vec::new();
    let mut cursor = 0usize;
    for (n, it) in random_items(&mut rng, &all, &w, 30, 25).iter().enumerate() {
        let res = panics::catch(|| match n % 3 {
            0 => h.push(it.as_slice()),
            1 => h.push(it.clone()),
            _ => h.push(it),
        });
        match res {
            Ok(idx) => {
                if n < 12 {
                    ctx.log(format!("h.push({:?}) -> {:?}", &it[..it.len().min(8)], idx));
                }
                cursor = idx.1;
                issued.push((idx, it.clone()));
            }
            Err(p) => {
                ctx.fail(&format!("raw-push-panic:{}", p.file()), format!("a raw (default / cleared) container refused {:?}: {}", &it[..it.len().min(8)], p.short()));
                break;
            }
        }
        for (i, want) in &issued {
            match panics::catch(|| decode_bounded(&h, *i, want)) {
                Ok(Ok(())) => {}
                Ok(Err(e)) => {
                    ctx.fail("raw-decode", e);
                    break;
                }
                Err(p) => {
                    ctx.fail(&format!("raw-decode-panic:{}", p.file()), p.short());
                    break;
                }
            }
        }
        if ctx.failed {
            break;
        }
        ctx.nontrivial = true;
    }
    ctx.end_history();
}
