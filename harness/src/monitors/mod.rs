//! One monitor per property. Entry-based monitors are generic over `E: Entry` and reached
//! through `dispatch`; stand-alone monitors (index containers, Huffman, dictionary codec,
//! ordering) build their own jobs.

use crate::driver::{Ctx, Job, Tier};
use crate::entry::{Entry, Idx, IdxC};
use crate::registry::Dyn;

pub mod c01;
pub mod c02;
pub mod c03;
pub mod c04;
pub mod c06;
pub mod c07;
pub mod c08;
pub mod c09;
pub mod c10;
pub mod c11;
pub mod c12;
pub mod c13;
pub mod c14;
pub mod c15;
pub mod c16;
pub mod c17;
pub mod c18;
pub mod c20;
pub mod chain;
pub mod idxc;
pub mod util;

pub struct Plan<'a> {
    pub tier: Tier,
    pub seed: u64,
    pub reg: &'a [Dyn],
    /// restrict to one entry / workload / history (replay)
    pub only_entry: Option<String>,
    pub only_what: Option<String>,
    pub only_hist: Option<u64>,
}

pub struct PropDef {
    pub id: &'static str,
    pub jobs: fn(&Plan) -> Vec<Job>,
    /// coverage classes that must be observed for the run to count (else inconclusive)
    pub required: fn(&Plan) -> Vec<String>,
    /// how cases are generated and what makes one non-trivial
    pub rule: &'static str,
    pub assumptions: &'static [&'static str],
}

pub fn props() -> Vec<PropDef> {
    vec![
        c01::DEF, c02::DEF, c03::DEF, c04::DEF, idxc::C05, c06::DEF, c07::DEF, c08::DEF, c09::DEF, c10::DEF, c11::DEF, c12::DEF, c13::DEF, c14::DEF, c15::DEF, c16::DEF, c17::DEF, c18::DEF,
        idxc::C19, c20::DEF,
    ]
}

/// Region-level dispatch.
pub fn dispatch<E: Entry>(prop: &str, ctx: &mut Ctx) {
    match prop {
        "C01" => c01::run::<E>(ctx),
        "C02" => c02::run::<E>(ctx),
        "C04" => c04::run::<E>(ctx),
        "C08" => c08::run::<E>(ctx),
        "C09" => c09::run::<E>(ctx),
        "C10" => c10::run::<E>(ctx),
        "C11" => c11::run::<E>(ctx),
        "C12" => c12::run::<E>(ctx),
        "C13" => c13::run::<E>(ctx),
        "C14" => c14::run::<E>(ctx),
        "C16" => c16::run::<E>(ctx),
        "C17" => c17::run::<E>(ctx),
        "C18" => c18::run::<E>(ctx),
        "C20" => c20::run::<E>(ctx),
        _ => panic!("harness: no region-level monitor for {prop}"),
    }
}

/// FlatStack-level dispatch.
pub fn dispatch_stack<E: Entry, S: IdxC<Idx<E>>>(prop: &str, ctx: &mut Ctx) {
    match prop {
        "C02" => c02::run_stack::<E, S>(ctx),
        "C03" => c03::run::<E, S>(ctx),
        "C08" => c08::run_stack::<E, S>(ctx),
        "C09" => c09::run_stack::<E, S>(ctx),
        "C10" => c10::run_stack::<E, S>(ctx),
        "C13" => c13::run_stack::<E, S>(ctx),
        "C16" => c16::run_stack::<E, S>(ctx),
        "C17" => c17::run_stack::<E, S>(ctx),
        "C18" => c18::run_stack::<E, S>(ctx),
        "C20" => c20::run_stack::<E, S>(ctx),
        "C19" => idxc::run_stack_share::<E, S>(ctx),
        _ => panic!("harness: no stack-level monitor for {prop}"),
    }
}

/// `n` histories of workload `what` for every entry accepted by `filter`.
pub fn entry_jobs(plan: &Plan, prop: &'static str, what: &str, n: u64, filter: impl Fn(&Dyn) -> bool) -> Vec<Job> {
    let mut out = Vec::new();
    for d in plan.reg.iter().filter(|d| filter(d)) {
        let run = d.run;
        for h in 0..n {
            out.push(Job {
                entry: d.label.to_string(),
                what: what.to_string(),
                hist_no: h,
                f: Box::new(move |ctx: &mut Ctx| run(prop, ctx)),
            });
        }
    }
    out
}

/// `n` histories of stack workload `what` for every entry accepted by `filter`, cycling
/// through the admissible index containers (the container is `hist_no % variants`).
pub fn stack_jobs(plan: &Plan, prop: &'static str, what: &str, n: u64, filter: impl Fn(&Dyn) -> bool) -> Vec<Job> {
    let mut out = Vec::new();
    for d in plan.reg.iter().filter(|d| filter(d)) {
        let run = d.run_stack;
        let variants = d.stack_variants as u64;
        for h in 0..n * variants {
            out.push(Job {
                entry: d.label.to_string(),
                what: what.to_string(),
                hist_no: h,
                f: Box::new(move |ctx: &mut Ctx| run(prop, ctx, (ctx.hist_no % variants) as usize)),
            });
        }
    }
    out
}

pub fn standalone(entry: &str, what: &str, hist_no: u64, f: impl Fn(&mut Ctx) + Send + Sync + 'static) -> Job {
    Job { entry: entry.to_string(), what: what.to_string(), hist_no, f: Box::new(f) }
}
