//! C15 — equality and ordering of read items match those of the owned values.

use super::{standalone, Plan, PropDef};
use crate::catalogue::{IL, IO};
use crate::driver::{Ctx, Job, Tier};
use crate::panics;
use crate::rng::Rng;
use crate::val::{Dom, Kind, Val};
use flatcontainer::impls::huffman_container::HuffmanContainer;
use flatcontainer::{IntoOwned, MirrorRegion, Push, Region, SliceRegion, StringRegion};
use std::cmp::Ordering;
use std::collections::BTreeMap;
use std::fmt::Debug;

pub const DEF: PropDef = PropDef {
    id: "C15",
    jobs,
    required,
    rule: "one case = one ordered pair (x, y) of read items, each taken in one of its representations (item of region A, item of a second region B in a different state, item of a third region C whose items share their offsets with A's but hold other contents, borrow_as(&owned); for Huffman: raw container, encoded container, borrow_as), compared with ==, !=, partial_cmp and cmp and checked against ==, lexicographic cmp of the owned values: x == y <=> vx == vy, x != y <=> !(x == y), x.cmp(y) == vx.cmp(vy), partial_cmp == Some(cmp), (x == y) <=> (cmp == Equal); order laws (reflexivity, antisymmetry, transitivity) additionally checked directly on triples. Exhaustive: all vectors of length <= 3 (thorough: 4) over a 3-value domain (40 / 121 vectors, 1600 / 14641 ordered pairs x 16 representation pairs) for slice<mirror<u8>>, slice<string>, slice<slice<mirror<u8>>>, slice<mirror<usize>> with both compressing index containers, and HuffmanContainer<u8>; random longer vectors. Non-trivial = the two items are not the same index of the same region; distinct = distinct (composition, vx, vy, representation pair).",
    assumptions: &["ReadColumns and the other read items implement no comparison traits and are outside this property"],
};

fn jobs(plan: &Plan) -> Vec<Job> {
    let t = plan.tier;
    let mut v = Vec::new();
    v.push(standalone("slice<mirror<u8>>", "exhaustive", 0, |c| exhaustive_slice::<SliceRegion<MirrorRegion<u8>>, u8>(c)));
    v.push(standalone("slice<string>", "exhaustive", 0, |c| exhaustive_slice::<SliceRegion<StringRegion>, String>(c)));
    v.push(standalone("slice<slice<mirror<u8>>>", "exhaustive", 0, |c| exhaustive_slice::<SliceRegion<SliceRegion<MirrorRegion<u8>>>, Vec<u8>>(c)));
    v.push(standalone("slice<mirror<usize>,optimized>", "exhaustive", 0, |c| exhaustive_slice::<SliceRegion<MirrorRegion<usize>, IO>, usize>(c)));
    v.push(standalone("slice<mirror<usize>,list>", "exhaustive", 0, |c| exhaustive_slice::<SliceRegion<MirrorRegion<usize>, IL>, usize>(c)));
    v.push(standalone("huffman<u8>", "exhaustive", 0, exhaustive_huffman));
    for h in 0..t.pick(150, 20000, 1) {
        v.push(standalone("slice<mirror<u8>>", "random", h, |c| random_slice::<SliceRegion<MirrorRegion<u8>>, u8>(c)));
        v.push(standalone("slice<string>", "random", h, |c| random_slice::<SliceRegion<StringRegion>, String>(c)));
        v.push(standalone("slice<slice<string>>", "random", h, |c| random_slice::<SliceRegion<SliceRegion<StringRegion>>, Vec<String>>(c)));
        v.push(standalone("slice<mirror<f64>>", "random", h, random_float));
        v.push(standalone("huffman<u8>", "random", h, random_huffman));
    }
    v
}

fn required(plan: &Plan) -> Vec<String> {
    if plan.tier == Tier::Miri {
        return vec![];
    }
    let mut v = Vec::new();
    for e in ["slice<mirror<u8>>", "slice<string>", "slice<slice<mirror<u8>>>", "slice<mirror<usize>,optimized>", "slice<mirror<usize>,list>", "huffman<u8>"] {
        v.push(format!("exhaustive:{e}"));
    }
    for c in ["strict-prefix", "equal-across-representations", "huffman:raw-vs-encoded", "huffman:encoded-vs-encoded", "huffman:borrowed-vs-encoded"] {
        v.push(c.to_string());
    }
    v
}

/// Compares x with y in every way the crate offers and checks against the owned values.
fn compare<I: Ord + Debug, V: Ord + Debug>(x: &I, y: &I, vx: &V, vy: &V) -> Result<(), String> {
    let want = vx.cmp(vy);
    let eq = x == y;
    if eq != (vx == vy) {
        return Err(format!("{:?} == {:?} is {eq}, the owned values say {}", x, y, vx == vy));
    }
    #[allow(clippy::nonminimal_bool)]
    if (x != y) == eq {
        return Err(format!("{:?} != {:?} is inconsistent with ==", x, y));
    }
    let c = x.cmp(y);
    if c != want {
        return Err(format!("{:?}.cmp({:?}) is {:?}, the owned values compare {:?}", x, y, c, want));
    }
    if x.partial_cmp(y) != Some(c) {
        return Err(format!("{:?}.partial_cmp({:?}) is {:?} but cmp is {:?}", x, y, x.partial_cmp(y), c));
    }
    if eq != (c == Ordering::Equal) {
        return Err(format!("{:?} vs {:?}: == is {eq} but cmp is {:?}", x, y, c));
    }
    // antisymmetry with the mirrored comparison
    if y.cmp(x) != c.reverse() {
        return Err(format!("cmp is not antisymmetric on {:?}, {:?}", x, y));
    }
    Ok(())
}

fn all_vectors<T: Clone>(letters: &[T; 3], maxlen: usize) -> Vec<Vec<T>> {
    let mut out: Vec<Vec<T>> = vec![vec![]];
    for len in 1..=maxlen {
        for code in 0..3usize.pow(len as u32) {
            let mut v = Vec::new();
            let mut x = code;
            for _ in 0..len {
                v.push(letters[x % 3].clone());
                x /= 3;
            }
            out.push(v);
        }
    }
    out
}

trait Letters: Sized {
    fn letters() -> [Self; 3];
}
impl Letters for u8 {
    fn letters() -> [u8; 3] {
        [0, 1, 255]
    }
}
impl Letters for usize {
    fn letters() -> [usize; 3] {
        [0, 5, usize::MAX]
    }
}
impl Letters for String {
    fn letters() -> [String; 3] {
        ["".into(), "a".into(), "aé".into()]
    }
}
impl Letters for Vec<u8> {
    fn letters() -> [Vec<u8>; 3] {
        [vec![], vec![1], vec![1, 0]]
    }
}

/// Checks all ordered pairs of `vals` across three representations.
fn check_pairs<R, T>(ctx: &mut Ctx, vals: &[Vec<T>], label: &str, exhaustive: bool)
where
    R: Region<Owned = Vec<T>> + 'static,
    T: Ord + Debug + Clone + 'static,
    for<'a> R: Push<&'a Vec<T>>,
    for<'a> R::ReadItem<'a>: Ord + Debug,
{
    let mut rng = Rng::derive(ctx.seed, &["c15", label], ctx.hist_no);
    let res = panics::catch(|| -> Result<(u64, bool, bool), String> {
        // region A holds the vectors in order; region B holds them in another order after some filler
        let mut a = R::default();
        let ia: Vec<R::Index> = vals.iter().map(|v| a.push(v)).collect();
        let mut b = R::default();
        for v in vals.iter().rev().take(5) {
            let _ = b.push(v);
        }
        let mut order: Vec<usize> = (0..vals.len()).collect();
        for i in (1..order.len()).rev() {
            order.swap(i, rng.below(i + 1));
        }
        let mut ib: Vec<Option<R::Index>> = vec![None; vals.len()];
        for &k in &order {
            ib[k] = Some(b.push(&vals[k]));
        }
        // region C: position k holds a vector of the same length as A's k-th vector but (where
        // possible) other contents, so that items of A and C share their (start, end) ranges
        let mut by_len: std::collections::BTreeMap<usize, Vec<usize>> = std::collections::BTreeMap::new();
        for (k, v) in vals.iter().enumerate() {
            by_len.entry(v.len()).or_default().push(k);
        }
        let mut twin_of: Vec<usize> = (0..vals.len()).collect();
        for group in by_len.values() {
            for (g, &k) in group.iter().enumerate() {
                twin_of[k] = group[(g + 1) % group.len()];
            }
        }
        let mut c = R::default();
        let ic_at: Vec<R::Index> = (0..vals.len()).map(|k| c.push(&vals[twin_of[k]])).collect();
        // index of vals[k] inside C: the position p with twin_of[p] == k
        let mut pos_in_c: Vec<usize> = vec![0; vals.len()];
        for (p, &t) in twin_of.iter().enumerate() {
            pos_in_c[t] = p;
        }
        let mut pairs = 0u64;
        let mut prefix = false;
        let mut equal_across = false;
        for (i, vx) in vals.iter().enumerate() {
            for (j, vy) in vals.iter().enumerate() {
                if vx.len() < vy.len() && vy[..vx.len()] == vx[..] {
                    prefix = true;
                }
                let xs: [R::ReadItem<'_>; 4] = [a.index(ia[i]), b.index(ib[i].unwrap()), IntoOwned::borrow_as(vx), c.index(ic_at[pos_in_c[i]])];
                let ys: [R::ReadItem<'_>; 4] = [a.index(ia[j]), b.index(ib[j].unwrap()), IntoOwned::borrow_as(vy), c.index(ic_at[pos_in_c[j]])];
                for (rx, x) in xs.iter().enumerate() {
                    for (ry, y) in ys.iter().enumerate() {
                        compare(x, y, vx, vy).map_err(|e| format!("representations ({rx}, {ry}) [0 = region A, 1 = region B, 2 = borrowed from owned, 3 = region C (same offsets as A, other contents)]: {e}"))?;
                        pairs += 1;
                        if rx != ry && vx == vy {
                            equal_across = true;
                        }
                    }
                }
            }
        }
        // transitivity and reflexivity on triples, directly
        let n = vals.len();
        let triples = if exhaustive { n * n * n } else { 2000 };
        for t in 0..triples {
            let (i, j, k) = if exhaustive { (t / (n * n), (t / n) % n, t % n) } else { (rng.below(n), rng.below(n), rng.below(n)) };
            let (x, y, z) = (a.index(ia[i]), b.index(ib[j].unwrap()), a.index(ia[k]));
            if x.cmp(&x) != Ordering::Equal {
                return Err(format!("cmp is not reflexive on {:?}", x));
            }
            if x.cmp(&y) != Ordering::Greater && y.cmp(&z) != Ordering::Greater && x.cmp(&z) == Ordering::Greater {
                return Err(format!("cmp is not transitive: {:?} <= {:?} <= {:?} but the first is greater than the last", x, y, z));
            }
        }
        Ok((pairs, prefix, equal_across))
    });
    match res {
        Ok(Ok((pairs, prefix, equal_across))) => {
            ctx.count("pairs_compared", pairs);
            ctx.rep.nontrivial_counted += pairs;
            ctx.rep.evaluations += pairs;
            if prefix {
                ctx.cover("strict-prefix");
            }
            if equal_across {
                ctx.cover("equal-across-representations");
            }
        }
        Ok(Err(e)) => {
            ctx.log(format!("{} vectors pushed into two {label} regions", vals.len()));
            ctx.fail("comparison", e);
        }
        Err(p) => ctx.fail(&format!("comparison-panic:{}", p.file()), p.short()),
    }
}

fn exhaustive_slice<R, T>(ctx: &mut Ctx)
where
    R: Region<Owned = Vec<T>> + 'static,
    T: Ord + Debug + Clone + Letters + 'static,
    for<'a> R: Push<&'a Vec<T>>,
    for<'a> R::ReadItem<'a>: Ord + Debug,
{
    let vals = all_vectors(&T::letters(), if ctx.tier == Tier::Thorough { 4 } else { 3 });
    let label = ctx.entry.clone();
    check_pairs::<R, T>(ctx, &vals, &label, true);
    if ctx.rep.samples.len() < 3 {
        ctx.rep.samples.push(serde_json::json!({"composition": label, "vectors": vals.len(), "example_pair": [format!("{:?}", vals[5]), format!("{:?}", vals[17])]}));
    }
    ctx.cover(&format!("exhaustive:{label}"));
}

fn random_slice<R, T>(ctx: &mut Ctx)
where
    R: Region<Owned = Vec<T>> + 'static,
    T: Ord + Debug + Clone + Val + 'static,
    for<'a> R: Push<&'a Vec<T>>,
    for<'a> R::ReadItem<'a>: Ord + Debug,
{
    let kind = if ctx.hist_no % 2 == 0 { Kind::Tiny } else { Kind::Hostile };
    let n = ctx.rng.range(3, 14);
    let mut vals: Vec<Vec<T>> = (0..n).map(|_| <Vec<T> as Val>::gen(&mut ctx.rng, Dom::new(kind))).collect();
    // prefixes and extensions of existing vectors
    for i in 0..n / 2 {
        let mut v = vals[i].clone();
        if ctx.rng.chance(1, 2) && !v.is_empty() {
            v.pop();
        } else {
            v.push(<T as Val>::gen(&mut ctx.rng, Dom::new(kind)));
        }
        vals.push(v);
    }
    let label = ctx.entry.clone();
    check_pairs::<R, T>(ctx, &vals, &label, false);
}

/// Floats only offer PartialEq / PartialOrd: compare with the owned values' partial order.
fn random_float(ctx: &mut Ctx) {
    let n = ctx.rng.range(3, 10);
    let vals: Vec<Vec<f64>> = (0..n).map(|_| <Vec<f64> as Val>::gen(&mut ctx.rng, Dom::new(Kind::Hostile))).collect();
    let res = panics::catch(|| -> Result<u64, String> {
        let mut a = <SliceRegion<MirrorRegion<f64>>>::default();
        let ia: Vec<_> = vals.iter().map(|v| a.push(v)).collect();
        let mut pairs = 0;
        for (i, vx) in vals.iter().enumerate() {
            for (j, vy) in vals.iter().enumerate() {
                let xs = [a.index(ia[i]), IntoOwned::borrow_as(vx)];
                let ys = [a.index(ia[j]), IntoOwned::borrow_as(vy)];
                for x in &xs {
                    for y in &ys {
                        if (x == y) != (vx == vy) {
                            return Err(format!("{:?} == {:?} disagrees with the owned vectors", vx, vy));
                        }
                        if x.partial_cmp(y) != vx.partial_cmp(vy) {
                            return Err(format!("partial_cmp of {:?} and {:?} is {:?}, owned vectors give {:?}", vx, vy, x.partial_cmp(y), vx.partial_cmp(vy)));
                        }
                        pairs += 1;
                    }
                }
            }
        }
        Ok(pairs)
    });
    match res {
        Ok(Ok(p)) => {
            ctx.count("pairs_compared", p);
            ctx.rep.nontrivial_counted += p;
            ctx.rep.evaluations += p;
        }
        Ok(Err(e)) => ctx.fail("comparison-partial", e),
        Err(p) => ctx.fail(&format!("comparison-panic:{}", p.file()), p.short()),
    }
}

// ---------------------------------------------------------------- huffman

fn huffman_pairs(ctx: &mut Ctx, vals: &[Vec<u8>], exhaustive: bool) {
    let res = panics::catch(|| -> Result<u64, String> {
        let mut raw = HuffmanContainer::<u8>::default();
        let ir: Vec<_> = vals.iter().map(|v| raw.push(v)).collect();
        let mut enc = HuffmanContainer::merge_regions(std::iter::once(&raw));
        let ie: Vec<_> = vals.iter().map(|v| enc.push(v)).collect();
        // a second encoded container with another code (other statistics) and other bit offsets
        let mut raw2 = HuffmanContainer::<u8>::default();
        for v in vals.iter().rev() {
            let _ = raw2.push(v);
            let _ = raw2.push(v.iter().rev().take(1).copied().collect::<Vec<u8>>());
        }
        let mut enc2 = HuffmanContainer::merge_regions(std::iter::once(&raw2));
        let _ = enc2.push(&vals[vals.len() - 1]);
        let ie2: Vec<_> = vals.iter().map(|v| enc2.push(v)).collect();
        let mut pairs = 0;
        for (i, vx) in vals.iter().enumerate() {
            for (j, vy) in vals.iter().enumerate() {
                let xs = [raw.index(ir[i]), enc.index(ie[i]), enc2.index(ie2[i]), IntoOwned::borrow_as(vx)];
                let ys = [raw.index(ir[j]), enc.index(ie[j]), enc2.index(ie2[j]), IntoOwned::borrow_as(vy)];
                for (rx, x) in xs.iter().enumerate() {
                    for (ry, y) in ys.iter().enumerate() {
                        compare(x, y, vx, vy).map_err(|e| format!("representations ({rx}, {ry}) [0 = raw container, 1 = encoded, 2 = encoded with another code, 3 = borrowed]: {e}"))?;
                        pairs += 1;
                    }
                }
            }
        }
        let _ = exhaustive;
        Ok(pairs)
    });
    match res {
        Ok(Ok(p)) => {
            ctx.count("pairs_compared", p);
            ctx.rep.nontrivial_counted += p;
            ctx.rep.evaluations += p;
            ctx.cover("huffman:raw-vs-encoded");
            ctx.cover("huffman:encoded-vs-encoded");
            ctx.cover("huffman:borrowed-vs-encoded");
        }
        Ok(Err(e)) => {
            ctx.log(format!("{} symbol vectors in a raw, two encoded containers and borrowed form", vals.len()));
            ctx.fail("comparison", e);
        }
        Err(p) => ctx.fail(&format!("comparison-panic:{}", p.file()), p.short()),
    }
}

fn exhaustive_huffman(ctx: &mut Ctx) {
    let vals = all_vectors(&[3u8, 4, 200], if ctx.tier == Tier::Thorough { 4 } else { 3 });
    huffman_pairs(ctx, &vals, true);
    ctx.cover("exhaustive:huffman<u8>");
}

fn random_huffman(ctx: &mut Ctx) {
    let n = ctx.rng.range(3, 12);
    let alphabet: Vec<u8> = (0..ctx.rng.range(2, 9)).map(|_| ctx.rng.next() as u8).collect();
    let mut vals: Vec<Vec<u8>> = (0..n)
        .map(|_| {
            let len = ctx.rng.range(0, 12);
            (0..len).map(|_| alphabet[ctx.rng.below(alphabet.len())]).collect()
        })
        .collect();
    for i in 0..n / 2 {
        let mut v = vals[i].clone();
        v.push(alphabet[0]);
        vals.push(v);
    }
    huffman_pairs(ctx, &vals, false);
}
