//! C08 — clear() makes a region (or FlatStack) observationally fresh.

use super::c02::LiveStack;
use super::util::*;
use super::{entry_jobs, stack_jobs, Plan, PropDef};
use crate::check::Lvl;
use crate::driver::{Ctx, Job, Tier};
use crate::entry::{Entry, Idx, IdxC, Stack};
use crate::live::Live;
use crate::panics;
use crate::val::{Dom, Kind, Same, Val};

pub const DEF: PropDef = PropDef {
    id: "C08",
    jobs,
    required,
    rule: "one case = (history H1, clear, history H2) on one catalogue entry (region or FlatStack with each admissible index container), H2 being applied in lock-step to the cleared object and to a twin created by Default::default(); every returned index must be equal, every read of every index issued since the clear must describe the pushed value, and len/is_empty must agree; up to 5 clear/refill cycles per case. H1 leaves residue (pending equal item, saturated/spilled/u64 index containers, wide rows, trained dictionary / Huffman code via merge_regions); H2 starts with the item most likely to betray it. Bounded-exhaustive part: all (H1, H2) with |H1|,|H2| <= 3 (thorough: 4) over 3 values on 16 entries. Non-trivial = H1 and H2 both non-empty; distinct = distinct hash of (entry, operation list).",
    assumptions: &["capacities and Debug output are not compared (allocations and empty columns may be retained)"],
};

pub const EXHAUSTIVE: [&str; 16] = [
    "string",
    "collapse<string>",
    "collapse<pairs<string,optimized>>",
    "pairs<string,optimized>",
    "pairs<string,list>",
    "pairs<owned<u8>,vec>",
    "slice<mirror<usize>,optimized>",
    "slice<collapse<string>>",
    "columns<string>",
    "columns<mirror<u8>,list>",
    "columns<collapse<pairs<string>>>",
    "option<collapse<string>>",
    "tuple(mirror<u64>,collapse<owned<()>>,collapse<string>)",
    "codec-dict",
    "huffman<u8>",
    "collapse<mirror<f64>>",
];

fn jobs(plan: &Plan) -> Vec<Job> {
    let t = plan.tier;
    let mut v = entry_jobs(plan, "C08", "clear", t.pick(48, 500, 1), |_| true);
    v.extend(entry_jobs(plan, "C08", "exhaustive", 1, |d| EXHAUSTIVE.contains(&d.label)));
    v.extend(stack_jobs(plan, "C08", "stack-clear", t.pick(12, 120, 0), |_| true));
    v.extend(entry_jobs(plan, "C08", "chain", t.pick(32, 300, 1), |d| super::chain::eligible(d, super::chain::Fin::Clear)));
    v.extend(stack_jobs(plan, "C08", "stack-chain", t.pick(6, 50, 0), |d| super::chain::eligible_stack(d, super::chain::Fin::Clear)));
    v
}

fn required(plan: &Plan) -> Vec<String> {
    if plan.tier == Tier::Miri {
        return vec![];
    }
    let mut v = Vec::new();
    for d in plan.reg {
        v.push(format!("clear:{}", d.label));
        v.push(format!("stack-clear:{}", d.label));
        if d.flags.coded {
            v.push(format!("residue:trained:{}", d.label));
        }
        if d.flags.collapse_top {
            v.push(format!("residue:pending-equal:{}", d.label));
        }
    }
    for e in EXHAUSTIVE {
        v.push(format!("exhaustive:{e}"));
    }
    v.push("residue:stack-index-spilled".into());
    v.push("stack-clear:merged-without-copies".into());
    for d in plan.reg {
        if super::chain::eligible(d, super::chain::Fin::Clear) {
            v.push(format!("chain:{}", d.label));
        }
        if super::chain::eligible_stack(d, super::chain::Fin::Clear) {
            v.push(format!("stack-chain:{}", d.label));
        }
    }
    v.push("next-generation".into());
    v.extend(super::chain::required_pairs(super::chain::Fin::Clear));
    v
}

pub fn run<E: Entry>(ctx: &mut Ctx) {
    if ctx.what == "chain" {
        return super::chain::run::<E>(ctx, super::chain::Fin::Clear, "fresh-after-clear");
    }
    if ctx.what == "exhaustive" {
        return exhaustive::<E>(ctx);
    }
    let h = ctx.hist_no;
    let kind = kind_for(h);
    // n1 == 0: clear() right after creation / merge_regions, before anything was pushed
    let n1 = if h % 8 == 7 { 0 } else { ctx.rng.range(1, if ctx.tier == Tier::Miri { 5 } else { 30 }) };
    let pool: Vec<E::V> = <E::V as Val>::gen_run(&mut ctx.rng, Dom::new(kind), n1 + 4);
    // the object starts either as a default region or as a trained / pre-sized one
    let trained = (h / 3) % 2 == 1;
    let a = if trained { Live::<E>::trained("a", ctx, &pool) } else { Some(Live::<E>::new("a")) };
    let Some(mut a) = a else {
        ctx.nontrivial = true;
        ctx.end_history();
        return;
    };
    if trained && E::coded() {
        ctx.cover(&format!("residue:trained:{}", E::label()));
    }
    let nforms = Live::<E>::nforms();
    let cycles = ctx.rng.range(1, 5);
    'outer: for _cycle in 0..cycles {
        // H1
        let mut last: Option<E::V> = None;
        for _ in 0..n1 {
            let v = draw::<E>(ctx, &pool, last.as_ref());
            if { let f__ = ctx.rng.below(nforms); a.push(ctx, &v, f__) }.is_none() {
                break 'outer;
            }
            last = Some(v);
        }
        if !a.clear(ctx) {
            break;
        }
        let mut t = Live::<E>::new("fresh");
        ctx.log("fresh = Default::default()".into());
        // H2 starts with the item most likely to betray residue: the last item of H1; for coded
        // regions also values the earlier statistics never saw (a fresh region accepts anything)
        let foreign: Vec<E::V> = <E::V as Val>::gen_run(&mut ctx.rng, Dom::new(Kind::Hostile), 4);
        let n2 = ctx.rng.range(1, 12);
        for k in 0..n2 {
            let v = if E::coded() && k % 3 == 1 {
                foreign[k % foreign.len()].clone()
            } else if k == 0 && last.is_some() && ctx.rng.chance(3, 4) {
                if E::collapse_top() {
                    ctx.cover(&format!("residue:pending-equal:{}", E::label()));
                }
                last.clone().unwrap()
            } else {
                draw::<E>(ctx, &pool, last.as_ref())
            };
            let form = ctx.rng.below(nforms);
            if !push_both(ctx, &mut a, &mut t, &v, form, form, "fresh-after-clear", "after clear()") {
                break 'outer;
            }
            if !a.check_all(ctx, Lvl::BASIC, "fresh-after-clear") {
                break 'outer;
            }
            last = Some(v);
            ctx.nontrivial = true;
        }
        // residue that only the next generation can see (statistics kept across the clear)
        if !next_generation::<E>(ctx, &a, &t, "fresh-after-clear", "regions merged from the cleared-and-refilled region / from its fresh twin") {
            break;
        }
    }
    ctx.cover(&format!("clear:{}", E::label()));
    ctx.end_history();
}

fn exhaustive<E: Entry>(ctx: &mut Ctx) {
    let letters = three_values::<E>("c08");
    let nforms = Live::<E>::nforms();
    // sequences of length 0..=3 over 3 letters
    let mut seqs: Vec<Vec<usize>> = vec![vec![]];
    let maxlen = if ctx.tier == Tier::Thorough { 4usize } else { 3 };
    for len in 1..=maxlen {
        for code in 0..3usize.pow(len as u32) {
            let mut s = Vec::new();
            let mut x = code;
            for _ in 0..len {
                s.push(x % 3);
                x /= 3;
            }
            seqs.push(s);
        }
    }
    for (i1, h1) in seqs.iter().enumerate() {
        for (i2, h2) in seqs.iter().enumerate() {
            let mut a = Live::<E>::new("a");
            let mut ok = true;
            for (k, &l) in h1.iter().enumerate() {
                if a.push(ctx, &letters[l], (i1 + k) % nforms).is_none() {
                    ok = false;
                    break;
                }
            }
            if ok && a.clear(ctx) {
                let mut t = Live::<E>::new("fresh");
                for (k, &l) in h2.iter().enumerate() {
                    let f = (i2 + k) % nforms;
                    if !push_both(ctx, &mut a, &mut t, &letters[l], f, f, "fresh-after-clear", "after clear()") {
                        break;
                    }
                    if !a.check_all(ctx, Lvl::BASIC, "fresh-after-clear") {
                        break;
                    }
                }
            }
            ctx.nontrivial = !h1.is_empty() && !h2.is_empty();
            ctx.count("exhaustive_pairs", 1);
            ctx.end_history();
        }
    }
    ctx.cover(&format!("exhaustive:{}", E::label()));
}

pub fn run_stack<E: Entry, S: IdxC<Idx<E>>>(ctx: &mut Ctx) {
    if ctx.what == "stack-chain" {
        return super::chain::run_stack::<E, S>(ctx, super::chain::Fin::Clear, "stack-fresh-after-clear");
    }
    let kind = kind_for(ctx.hist_no / 3);
    let n1 = ctx.rng.range(1, 40);
    let pool: Vec<E::V> = <E::V as Val>::gen_run(&mut ctx.rng, Dom::new(kind), n1 + 4);
    let nforms = E::form_names().len();
    // every fourth history starts from merge_capacity over a populated stack and clears it before
    // anything was copied: the stack is "empty" but its region is not fresh
    let merged_start = ctx.hist_no % 4 == 3;
    let mut a = if merged_start {
        let mut src = LiveStack::<E, S>::new("src");
        for k in 0..n1 {
            if !src.copy(ctx, &pool[k % pool.len()], 0) {
                ctx.end_history();
                return;
            }
        }
        ctx.log(format!("fs = FlatStack<{}, {}>::merge_capacity([src])", E::label(), S::KIND));
        match panics::catch(|| Stack::<E, S>::merge_capacity(std::iter::once(&src.fs))) {
            Ok(f) => LiveStack::from_stack("fs", f),
            Err(p) => {
                ctx.fail_panic("merge_capacity", &p);
                ctx.end_history();
                return;
            }
        }
    } else {
        ctx.log(format!("fs = FlatStack<{}, {}>::default()", E::label(), S::KIND));
        LiveStack::<E, S>::new("fs")
    };
    let foreign: Vec<E::V> = <E::V as Val>::gen_run(&mut ctx.rng, Dom::new(Kind::Hostile), 4);
    let cycles = ctx.rng.range(1, 4);
    'outer: for cycle in 0..cycles {
        for k in 0..(if merged_start && cycle == 0 { 0 } else { n1 }) {
            if !{ let f__ = ctx.rng.below(nforms); a.copy(ctx, &pool[k % pool.len()], f__) } {
                break 'outer;
            }
        }
        if S::KIND == "optimized" && E::can_heap() {
            let mut total = 0;
            a.fs.heap_size(|u, _| total += u);
            if E::label() == "mirror<usize>" && total > 0 {
                ctx.cover("residue:stack-index-spilled");
            }
        }
        let fs = &mut a.fs;
        if let Err(p) = panics::catch(|| fs.clear()) {
            ctx.fail_panic("stack-clear", &p);
            break;
        }
        ctx.log("fs.clear()".into());
        if merged_start && cycle == 0 {
            ctx.cover("stack-clear:merged-without-copies");
        }
        a.model.clear();
        if a.fs.len() != 0 || !a.fs.is_empty() {
            ctx.fail("stack-not-empty", format!("after clear() the stack reports len {} / is_empty {}", a.fs.len(), a.fs.is_empty()));
            break;
        }
        let mut t = LiveStack::<E, S>::new("fresh");
        let n2 = ctx.rng.range(1, 12);
        for k2 in 0..n2 {
            // a cleared stack is a fresh one: it also accepts what earlier statistics never saw
            let v = if k2 % 3 == 1 { foreign[k2 % foreign.len()].clone() } else { pool[ctx.rng.below(pool.len())].clone() };
            let form = ctx.rng.below(nforms);
            if !a.copy(ctx, &v, form) || !t.copy(ctx, &v, form) {
                break 'outer;
            }
            if a.fs.len() != t.fs.len() {
                ctx.fail("stack-len", format!("cleared stack has len {}, a fresh one {}", a.fs.len(), t.fs.len()));
                break 'outer;
            }
            if !a.check_all_get(ctx, Lvl::BASIC, "stack-fresh-after-clear") || !t.check_all_get(ctx, Lvl::BASIC, "stack-fresh-after-clear") {
                break 'outer;
            }
            ctx.nontrivial = true;
        }
    }
    ctx.cover(&format!("stack-clear:{}", E::label()));
    ctx.end_history();
}
