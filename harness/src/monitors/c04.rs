//! C04 — string regions only ever hand out valid UTF-8 equal to a pushed string.
//!
//! Primary oracle: the in-crate probe (`flatcontainer::verif::str_probe`, cargo feature
//! `verif-hooks`) that validates the bytes at the crate's single unchecked conversion, read
//! after every operation; secondary: byte-for-byte comparison of every returned `&str` with
//! the pushed string. The program-text clause is approximated at run time by
//! `entry_points`, which asks the *compiled* crate which non-string input types the string
//! regions accept and drives every such path with invalid UTF-8.

use super::util::*;
use super::{entry_jobs, standalone, Plan, PropDef};
use crate::catalogue::*;
use crate::check::Lvl;
use crate::driver::{Ctx, Job, Tier};
use crate::entry::{Entry, Idx};
use crate::live::Live;
use crate::panics;
use crate::val::{Dom, Kind, Same, Val, STR_HOSTILE};
use flatcontainer::impls::codec::{CodecRegion, DictionaryCodec};
use flatcontainer::{OwnedRegion, Push, Region, StringRegion};
use std::cell::RefCell;

pub const DEF: PropDef = PropDef {
    id: "C04",
    jobs,
    required,
    rule: "one case = one history of push (strings built from 1-4 byte scalars, combining sequences, empty strings, suffixes of the previous string; every string form) / clear / clone / clone_from / merge_regions / JSON round trip on a string-bearing catalogue entry, including multi-generation dictionary-coded regions that receive strings with first bytes unseen by the statistics (such a push may be refused by a panic, never stored as something else). After every operation every issued index is re-read; the in-crate probe at the unchecked UTF-8 conversion must have seen no invalid byte string, and every returned &str must be byte-identical to the pushed string. 'entry-points' cases ask the compiled crate, for 20 non-string input types, whether StringRegion (plain, dictionary-coded, and wrapped) implements Push for them, and drive every existing path with four kinds of invalid UTF-8. Thorough tier: the same driver under Miri with every returned &str decoded (chars, reverse char_indices, to_uppercase). Non-trivial = at least one multi-byte string read back after a later push; distinct = distinct hash of (entry, operation list).",
    assumptions: &[
        "the program-text quantifier (every unsafe block, every impl Push<_> for StringRegion in src/) is not decidable by runtime monitoring; the surrogate covers the candidate input types listed in the evidence and the unsafe code the workloads execute",
        "Miri validates UTF-8 only where a &str is decoded; the in-crate probe is the primary oracle",
    ],
};

fn jobs(plan: &Plan) -> Vec<Job> {
    let t = plan.tier;
    let mut v = entry_jobs(plan, "C04", "strings", t.pick(80, 800, 2), |d| d.flags.stringy);
    for h in 0..t.pick(2, 6, 1) {
        v.push(standalone("string-entry-points", "entry-points", h, entry_points));
    }
    for h in 0..t.pick(100, 600, 2) {
        v.push(standalone("string<codec-dict>", "dictionary-generations", h, dictionary_generations));
    }
    v
}

fn required(plan: &Plan) -> Vec<String> {
    let mut v = vec!["entry-points:evaluated".to_string()];
    if plan.tier == Tier::Miri {
        return v;
    }
    for d in plan.reg.iter().filter(|d| d.flags.stringy) {
        v.push(format!("strings:{}", d.label));
    }
    for a in 1..=4 {
        for b in 1..=4 {
            v.push(format!("adjacent-widths:{a}-{b}"));
        }
    }
    for c in ["op:clear", "op:clone", "op:clone_from", "op:merge", "op:serde", "dict:unseen-first-byte", "dict:refused", "probe:>=10000"] {
        v.push(c.to_string());
    }
    v
}

/// Reads the in-crate probe; a non-zero invalid count is a violation.
fn probe_ok(ctx: &mut Ctx, after: &str) -> bool {
    let rep = flatcontainer::verif::take_report();
    ctx.count("utf8_probe_events", rep.probes);
    if rep.invalid > 0 {
        ctx.fail(
            "invalid-utf8-at-unchecked-conversion",
            format!(
                "after {after}: {} byte string(s) that are not valid UTF-8 reached from_utf8_unchecked, e.g. {:?}",
                rep.invalid,
                rep.samples.first().map(|s| s.as_slice()).unwrap_or(&[])
            ),
        );
        return false;
    }
    true
}

fn first_width(s: &str) -> Option<usize> {
    s.chars().next().map(|c| c.len_utf8())
}
fn last_width(s: &str) -> Option<usize> {
    s.chars().last().map(|c| c.len_utf8())
}

/// Records which scalar widths ended up adjacent in storage order (coverage only).
fn note_adjacent(ctx: &mut Ctx, rendered_prev: &mut Option<usize>, v_render: &str, raw: Option<(Option<usize>, Option<usize>)>) {
    let _ = v_render;
    if let Some((first, last)) = raw {
        if let (Some(p), Some(f)) = (*rendered_prev, first) {
            ctx.cover(&format!("adjacent-widths:{p}-{f}"));
        }
        if last.is_some() {
            *rendered_prev = last;
        }
    }
}

pub fn run<E: Entry>(ctx: &mut Ctx) {
    let h = ctx.hist_no;
    let miri = ctx.tier == Tier::Miri;
    let kind = if h % 3 == 2 { Kind::Long } else { Kind::Hostile };
    let nops = ctx.rng.range(3, if miri { 10 } else { 40 });
    let pool: Vec<E::V> = <E::V as Val>::gen_run(&mut ctx.rng, Dom::new(kind).json(), nops.max(6));
    let lvl = Lvl { oob: false, debug: false, consume_str: miri };
    let _ = flatcontainer::verif::take_report();
    let trained = E::coded() && h % 2 == 1;
    let live = if trained { Live::<E>::trained("r", ctx, &pool) } else { Some(Live::<E>::new("r")) };
    let Some(mut live) = live else {
        ctx.end_history();
        return;
    };
    let nforms = Live::<E>::nforms();
    let mut multi = false;
    // what the statistics of a coded region cover: None = raw / default (everything accepted)
    let mut covered: Option<Vec<E::V>> = if trained { Some(pool.clone()) } else { None };
    for _ in 0..nops {
        let choice = ctx.rng.below(30);
        let what: &str;
        match choice {
            0 => {
                what = "clear";
                if !live.clear(ctx) {
                    break;
                }
                covered = None;
                ctx.cover("op:clear");
            }
            1 => {
                what = "clone";
                if let Some(r2) = E::clone_r(&live.r) {
                    ctx.log("r = r.clone()".into());
                    let issued = std::mem::take(&mut live.issued);
                    live = Live::from_region("r", r2);
                    live.issued = issued;
                    ctx.cover("op:clone");
                }
            }
            2 => {
                what = "clone_from";
                if E::can_clone() {
                    let mut dst = Live::<E>::new("dst");
                    for _ in 0..ctx.rng.below(4) {
                        let v = pool[ctx.rng.below(pool.len())].clone();
                        if dst.push(ctx, &v, 0).is_none() {
                            break;
                        }
                    }
                    E::clone_from_r(&mut dst.r, &live.r);
                    ctx.log("dst.clone_from(&r); r = dst".into());
                    let issued = std::mem::take(&mut live.issued);
                    live = Live::from_region("r", dst.r);
                    live.issued = issued;
                    ctx.cover("op:clone_from");
                }
            }
            3 => {
                what = "merge_regions";
                let absorbed: Vec<E::V> = live.issued.iter().map(|x| x.1.clone()).collect();
                let Some(m) = merged::<E>(ctx, "r", &[&live.r]) else { break };
                live = m;
                ctx.cover("op:merge");
                covered = Some(absorbed.clone());
                if E::coded() {
                    // keep pushing what the source absorbed: everything must be accepted
                    for v in absorbed.iter().take(6) {
                        if { let f__ = ctx.rng.below(nforms); live.push(ctx, v, f__) }.is_none() {
                            break;
                        }
                    }
                }
            }
            4 => {
                what = "serde round trip";
                if E::json_lossless() {
                    if let Some(Ok(s)) = E::to_json(&live.r) {
                        if let Some(Ok(r2)) = E::from_json(&s) {
                            ctx.log("r = from_json(to_json(r))".into());
                            let issued = std::mem::take(&mut live.issued);
                            live = Live::from_region("r", r2);
                            live.issued = issued;
                            ctx.cover("op:serde");
                        }
                    }
                }
            }
            _ => {
                what = "push";
                let v = draw::<E>(ctx, &pool, live.issued.last().map(|x| &x.1));
                let form = ctx.rng.below(nforms);
                if E::coded() && covered.as_ref().map_or(false, |c| !c.iter().any(|x| x.same(&v))) {
                    // not certainly covered by the statistics: refusal is allowed
                    if live.try_push(ctx, &v, form).is_err() {
                        ctx.hit("refusals");
                        break;
                    }
                } else if live.push(ctx, &v, form).is_none() {
                    break;
                }
                let r = v.render();
                if r.bytes().any(|b| b >= 0x80) && live.issued.len() > 1 {
                    multi = true;
                }
            }
        }
        if ctx.failed {
            break;
        }
        if !live.check_all(ctx, lvl, "string-differs") {
            break;
        }
        if !probe_ok(ctx, what) {
            break;
        }
    }
    ctx.nontrivial = multi;
    ctx.cover(&format!("strings:{}", E::label()));
    ctx.end_history();
}

// ---------------------------------------------------------------- adjacency + dictionary generations

type DictString = StringRegion<CodecRegion<DictionaryCodec>>;

/// Plain string regions with every scalar width adjacent to every other, and multi-generation
/// dictionary-coded string regions fed strings whose first bytes the statistics have not seen.
fn dictionary_generations(ctx: &mut Ctx) {
    let _ = flatcontainer::verif::take_report();
    // part 1: adjacency in a plain region (and the consecutive-pairs wrapper)
    {
        let scalars = ["a", "é", "€", "😀"];
        let mut r = <StringRegion>::default();
        let mut p = <Pairs<StringRegion, IO>>::default();
        let mut issued: Vec<((usize, usize), usize, String)> = Vec::new();
        let mut prev: Option<usize> = None;
        for _ in 0..ctx.rng.range(8, 40) {
            let mut s = String::new();
            for _ in 0..ctx.rng.range(0, 3) {
                s.push_str(scalars[ctx.rng.below(4)]);
                if ctx.rng.chance(1, 4) {
                    s.push_str(STR_HOSTILE[ctx.rng.below(STR_HOSTILE.len())]);
                }
            }
            let a = r.push(s.as_str());
            let b = p.push(&s);
            ctx.log(format!("plain.push({:?}) -> {:?}; pairs.push -> {b}", s, a));
            if let (Some(pw), Some(fw)) = (prev, first_width(&s)) {
                ctx.cover(&format!("adjacent-widths:{pw}-{fw}"));
            }
            if let Some(lw) = last_width(&s) {
                prev = Some(lw);
            }
            issued.push((a, b, s));
            for (ia, ib, want) in &issued {
                // copy the bytes, not the (possibly invalid) str
                let got = panics::catch(|| {
                    (String::from_utf8_lossy(r.index(*ia).as_bytes()).into_owned(), String::from_utf8_lossy(p.index(*ib).as_bytes()).into_owned(), r.index(*ia).as_bytes() == want.as_bytes() && p.index(*ib).as_bytes() == want.as_bytes())
                });
                match got {
                    Ok((ga, gb, same)) => {
                        if !same {
                            ctx.fail("string-differs", format!("pushed {:?}, plain region reads {:?}, pairs region reads {:?}", want, ga, gb));
                        }
                    }
                    Err(pn) => ctx.fail(&format!("string-read-panic:{}", pn.file()), pn.short()),
                }
            }
            if ctx.failed || !probe_ok(ctx, "push into plain / pairs string regions") {
                ctx.end_history();
                return;
            }
        }
        ctx.nontrivial = true;
    }
    // part 2: dictionary generations
    let mut sources: Vec<DictString> = vec![DictString::default()];
    let gens = ctx.rng.range(2, 4);
    let mut alphabet: Vec<String> = Vec::new();
    for _ in 0..ctx.rng.range(2, 8) {
        alphabet.push(<String as Val>::gen(&mut ctx.rng, Dom::new(Kind::Hostile)));
    }
    for g in 0..gens {
        // the current generation: merged from all earlier regions (generation 0: default)
        let mut cur: DictString = if g == 0 {
            DictString::default()
        } else {
            match panics::catch(|| DictString::merge_regions(sources.iter())) {
                Ok(r) => r,
                Err(p) => {
                    ctx.fail_panic("merge_regions", &p);
                    break;
                }
            }
        };
        ctx.log(format!("generation {g}: merge_regions({} earlier regions)", if g == 0 { 0 } else { sources.len() }));
        let mut issued: Vec<(<DictString as Region>::Index, String)> = Vec::new();
        let n = ctx.rng.range(4, 60);
        let mut poisoned = false;
        for _ in 0..n {
            // mostly the frequent strings (so they become dictionary entries), sometimes a new
            // string with an arbitrary first scalar (its first byte may equal an assigned tag)
            let s: String = if ctx.rng.chance(3, 4) {
                alphabet[ctx.rng.below(alphabet.len())].clone()
            } else {
                let mut s = String::new();
                let c = match ctx.rng.below(4) {
                    0 => char::from_u32(ctx.rng.below(128) as u32).unwrap(),
                    1 => '\0',
                    2 => char::from_u32(1 + ctx.rng.below(8) as u32).unwrap(),
                    _ => <char as Val>::gen(&mut ctx.rng, Dom::new(Kind::Hostile)),
                };
                s.push(c);
                s.push_str(STR_HOSTILE[ctx.rng.below(STR_HOSTILE.len())]);
                ctx.cover("dict:unseen-first-byte");
                s
            };
            let res = panics::catch(|| cur.push(s.as_str()));
            match res {
                Ok(i) => {
                    ctx.log(format!("gen{g}.push({:?}) -> {:?}", s, i));
                    issued.push((i, s));
                }
                Err(p) => {
                    // a refusal is the prescribed outcome for input the dictionary cannot represent
                    ctx.log(format!("gen{g}.push({:?}) refused: {}", s, p.short()));
                    ctx.cover("dict:refused");
                    ctx.hit("refusals");
                    poisoned = true;
                }
            }
            if poisoned {
                break;
            }
            for (i, want) in &issued {
                match panics::catch(|| (String::from_utf8_lossy(cur.index(*i).as_bytes()).into_owned(), cur.index(*i).as_bytes() == want.as_bytes())) {
                    Ok((got, same)) => {
                        if !same {
                            ctx.fail("string-differs", format!("generation {g}: pushed {:?}, index {:?} reads {:?}", want, i, got));
                        }
                    }
                    Err(p) => ctx.fail(&format!("string-read-panic:{}", p.file()), format!("generation {g}: reading {:?} panicked: {}", want, p.short())),
                }
                if ctx.failed {
                    break;
                }
            }
            if ctx.failed || !probe_ok(ctx, "push into a dictionary-coded string region") {
                ctx.end_history();
                return;
            }
        }
        if poisoned {
            // the state of a region after a refused push is unspecified: do not use it further
            break;
        }
        sources.push(cur);
    }
    if ctx.rep.counters.get("utf8_probe_events").copied().unwrap_or(0) >= 10_000 {
        ctx.cover("probe:>=10000");
    }
    ctx.end_history();
}

// ---------------------------------------------------------------- entry points

/// Wrapper for the autoref probe "does `R: Push<T>` hold in the compiled crate?". Both the
/// region and the item type are part of the receiver type, so that method resolution decides
/// on the `Push<T>` bound: `PushYes` (implemented for `W` itself) wins when it holds, the
/// fallback `PushNo` (implemented for `&W`) is used otherwise.
pub struct W<'a, R, T>(pub RefCell<&'a mut R>, pub RefCell<Option<T>>);

pub trait PushYes {
    /// pushes the item, reads the result back; `Ok(true)` if the probe saw invalid UTF-8
    fn probe_push(&self) -> Option<Result<bool, String>>;
}
pub trait PushNo {
    fn probe_push(&self) -> Option<Result<bool, String>>;
}
impl<'a, R, T> PushYes for W<'a, R, T>
where
    R: Push<T> + 'static,
    for<'b> R: Region<ReadItem<'b> = &'b str>,
{
    fn probe_push(&self) -> Option<Result<bool, String>> {
        let mut g = self.0.borrow_mut();
        let r: &mut R = &mut **g;
        let t = self.1.borrow_mut().take().expect("item present");
        let _ = flatcontainer::verif::take_report();
        let res = panics::catch(|| {
            let i = r.push(t);
            let s = r.index(i);
            s.len()
        });
        let rep = flatcontainer::verif::take_report();
        Some(match res {
            Ok(_) => Ok(rep.invalid > 0),
            Err(p) => Err(p.short()),
        })
    }
}
impl<'a, R, T> PushNo for &W<'a, R, T> {
    fn probe_push(&self) -> Option<Result<bool, String>> {
        None
    }
}

const INVALID: [&[u8]; 4] = [b"\xff", b"\xe2\x82", b"\xed\xa0\x80", b"\x80"];

fn entry_points(ctx: &mut Ctx) {
    use std::borrow::Cow;
    use std::ffi::{CStr, OsStr};
    use std::os::unix::ffi::OsStrExt;
    use std::path::Path;
    let mut existing: Vec<String> = Vec::new();
    let mut evaluated = 0u64;
    macro_rules! probe {
        ($R:ty, $rname:expr, $tname:expr, |$b:ident, $vb:ident, $a1:ident, $lo:ident| $item:expr) => {{
            for bytes in INVALID {
                let mut region = <$R>::default();
                let $b: &[u8] = bytes;
                let $vb: Vec<u8> = bytes.to_vec();
                let $a1: [u8; 1] = [bytes[0]];
                let $lo = String::from_utf8_lossy(bytes);
                let w = W(RefCell::new(&mut region), RefCell::new(Some($item)));
                let out = (&w).probe_push();
                evaluated += 1;
                match out {
                    None => {}
                    Some(Ok(false)) | Some(Err(_)) => {
                        // the path exists but validated, converted or refused the bytes
                        let name = format!("{}: Push<{}>", $rname, $tname);
                        if !existing.contains(&name) {
                            existing.push(name);
                        }
                    }
                    Some(Ok(true)) => {
                        let name = format!("{}: Push<{}>", $rname, $tname);
                        if !existing.contains(&name) {
                            existing.push(name.clone());
                        }
                        ctx.log(format!("{name} accepted {:?}", bytes));
                        ctx.fail(
                            &format!("non-string-write-path:{}", $tname),
                            format!("{name} exists and lets the invalid bytes {:?} through to the unchecked UTF-8 conversion", bytes),
                        );
                    }
                }
            }
        }};
    }
    macro_rules! probe_all {
        ($R:ty, $rname:expr) => {{
            probe!($R, $rname, "&[u8]", |b, vecb, arr1, lossy| b);
            probe!($R, $rname, "&&[u8]", |b, vecb, arr1, lossy| &b);
            probe!($R, $rname, "Vec<u8>", |b, vecb, arr1, lossy| b.to_vec());
            probe!($R, $rname, "&Vec<u8>", |b, vecb, arr1, lossy| &vecb);
            probe!($R, $rname, "[u8; 1]", |b, vecb, arr1, lossy| [b[0]]);
            probe!($R, $rname, "&[u8; 1]", |b, vecb, arr1, lossy| &arr1);
            probe!($R, $rname, "Box<[u8]>", |b, vecb, arr1, lossy| b.to_vec().into_boxed_slice());
            probe!($R, $rname, "Cow<[u8]>", |b, vecb, arr1, lossy| Cow::Borrowed(b));
            probe!($R, $rname, "PushIter<vec::IntoIter<u8>>", |b, vecb, arr1, lossy| flatcontainer::PushIter(b.to_vec().into_iter()));
            probe!($R, $rname, "PushIter<slice::Iter<u8>>", |b, vecb, arr1, lossy| flatcontainer::PushIter(b.iter()));
            probe!($R, $rname, "&OsStr", |b, vecb, arr1, lossy| OsStr::from_bytes(b));
            probe!($R, $rname, "&Path", |b, vecb, arr1, lossy| Path::new(OsStr::from_bytes(b)));
            probe!($R, $rname, "&CStr", |b, vecb, arr1, lossy| CStr::from_bytes_until_nul(b"\xff\0").unwrap());
            probe!($R, $rname, "u8", |b, vecb, arr1, lossy| b[0]);
            probe!($R, $rname, "&u8", |b, vecb, arr1, lossy| &b[0]);
            probe!($R, $rname, "&[char]", |b, vecb, arr1, lossy| &['a'][..]);
            probe!($R, $rname, "char", |b, vecb, arr1, lossy| 'a');
            probe!($R, $rname, "Cow<str>", |b, vecb, arr1, lossy| String::from_utf8_lossy(b));
            probe!($R, $rname, "Box<str>", |b, vecb, arr1, lossy| String::from_utf8_lossy(b).into_owned().into_boxed_str());
            probe!($R, $rname, "&Cow<str>", |b, vecb, arr1, lossy| &lossy);
        }};
    }
    probe_all!(StringRegion, "StringRegion");
    probe_all!(DictString, "StringRegion<CodecRegion<DictionaryCodec>>");
    probe_all!(Pairs<StringRegion, IO>, "ConsecutiveIndexPairs<StringRegion>");
    probe_all!(Collapse<StringRegion>, "CollapseSequence<StringRegion>");
    probe_all!(StringRegion<Pairs<OwnedRegion<u8>, IO>>, "StringRegion<ConsecutiveIndexPairs<OwnedRegion<u8>>>");
    // the four string forms must exist (they are driven by the ordinary workload); check the probe sees them
    let mut sane = true;
    {
        let mut region = <StringRegion>::default();
        let w = W(RefCell::new(&mut region), RefCell::new(Some("é")));
        sane &= (&w).probe_push().is_some();
    }
    {
        let mut region = <StringRegion>::default();
        let w = W(RefCell::new(&mut region), RefCell::new(Some(String::from("é"))));
        sane &= (&w).probe_push().is_some();
    }
    {
        let mut region = <StringRegion>::default();
        let owned = String::from("é");
        let w = W(RefCell::new(&mut region), RefCell::new(Some(&owned)));
        sane &= (&w).probe_push().is_some();
    }
    {
        let mut region = <StringRegion>::default();
        let w = W(RefCell::new(&mut region), RefCell::new(Some(&"é")));
        sane &= (&w).probe_push().is_some();
    }
    {
        // and that it does not see a form that does not exist
        let mut region = <StringRegion>::default();
        let w = W(RefCell::new(&mut region), RefCell::new(Some(1.5f64)));
        sane &= (&w).probe_push().is_none();
    }
    if !sane {
        ctx.note("harness error: the entry-point probe does not see the string forms of StringRegion".into());
    }
    ctx.count("entry_point_candidates_evaluated", evaluated);
    ctx.count("entry_point_paths_existing", existing.len() as u64);
    if ctx.rep.samples.len() < 4 && ctx.hist_no == 0 {
        ctx.rep.samples.push(serde_json::json!({"entry_point_probe": {"candidates_evaluated": evaluated, "non_string_push_impls_found": existing}}));
    }
    ctx.log(format!("entry-point probe: {evaluated} (region, input type, invalid bytes) combinations, existing non-string paths: {:?}", existing));
    ctx.cover("entry-points:evaluated");
    ctx.nontrivial = true;
    ctx.end_history();
}
