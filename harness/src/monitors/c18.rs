//! C18 — heap_size accounts for what is stored: used <= capacity, nothing omitted.

use super::c02::LiveStack;
use super::util::*;
use super::{entry_jobs, stack_jobs, Plan, PropDef};
use crate::check::Lvl;
use crate::driver::{Ctx, Job, Tier};
use crate::entry::{Entry, Idx, IdxC};
use crate::live::{heap_pairs, Live};
use crate::model::IdxModel;
use crate::panics;
use crate::val::{Dom, Kind, Same, Val};
use flatcontainer::Region;

pub const DEF: PropDef = PropDef {
    id: "C18",
    jobs,
    required,
    rule: "one case = one history (pushes, reserves, clears) on a catalogue entry that implements heap_size, observed after every operation: every reported pair has used <= capacity; the summed used bytes are >= a lower bound computed from the reference model (bytes of strings and owned elements after deduplication, one index entry per slice element / row cell / offset for plain-vector index containers, column headers) and never decrease on push; after clear no capacity pair shrank, the payload left the account (used_after <= used_before - model payload), and a twin history with every string payload 16x longer but the same shape reports exactly the same used bytes after clear (what legitimately remains depends on shape only). 'Dominance' histories make one branch of a composite hold nearly all bytes so that omitting it breaks the bound. FlatStack adds its index container to the bound. Non-trivial = at least one push with a positive lower bound; distinct = distinct hash of (entry, operation list).",
    assumptions: &[
        "HuffmanContainer::heap_size is todo!() and DictionaryCodec reports nothing for its tables; coded regions contribute a lower bound of 0",
        "the lower bound assumes the documented storage layout (one Vec per terminal region); a more compact layout would need a new bound, a less compact one passes",
    ],
};

fn eligible(d: &crate::registry::Dyn) -> bool {
    d.flags.heap
}

fn jobs(plan: &Plan) -> Vec<Job> {
    let t = plan.tier;
    let mut v = entry_jobs(plan, "C18", "accounting", t.pick(28, 500, 1), eligible);
    v.extend(entry_jobs(plan, "C18", "dominance", t.pick(16, 200, 1), |d| eligible(d) && d.flags.model));
    v.extend(entry_jobs(plan, "C18", "long", t.pick(4, 12, 1), eligible));
    v.extend(stack_jobs(plan, "C18", "stack-accounting", t.pick(12, 100, 0), eligible));
    v
}

fn required(plan: &Plan) -> Vec<String> {
    if plan.tier == Tier::Miri {
        return vec![];
    }
    let mut v = Vec::new();
    for d in plan.reg.iter().filter(|d| eligible(d)) {
        v.push(format!("accounting:{}", d.label));
        v.push(format!("clear:{}", d.label));
        v.push(format!("stack:{}", d.label));
        if d.flags.model {
            v.push(format!("dominance:{}", d.label));
        }
    }
    for d in plan.reg.iter().filter(|d| eligible(d)) {
        v.push(format!("long:{}", d.label));
    }
    v.push("start:merged".into());
    v.push("bound:positive".into());
    v.push("scaling-twin:compared".into());
    v
}

struct Acct<E: Entry> {
    live: Live<E>,
    /// values pushed since creation / clear, in order
    seq: Vec<E::V>,
}

impl<E: Entry> Acct<E> {
    fn observe(&mut self, ctx: &mut Ctx, used_before_push: Option<usize>) -> bool {
        let pairs = match panics::catch(|| heap_pairs(&self.live.r)) {
            Ok(p) => p,
            Err(p) => {
                ctx.fail_panic("heap_size", &p);
                return false;
            }
        };
        for (i, (u, c)) in pairs.iter().enumerate() {
            if u > c {
                ctx.fail("used-exceeds-capacity", format!("{}: pair #{i} reports used {u} > capacity {c}", self.live.tag));
                return false;
            }
        }
        let used: usize = pairs.iter().map(|p| p.0).sum();
        if let Some(b) = used_before_push {
            if used < b {
                ctx.fail("used-decreased-on-push", format!("{}: summed used bytes went from {b} to {used} on a push", self.live.tag));
                return false;
            }
        }
        let refs: Vec<&E::V> = self.seq.iter().collect();
        if let Some(lb) = E::min_used(&refs) {
            if lb > 0 {
                ctx.cover("bound:positive");
                ctx.nontrivial = true;
            }
            if used < lb {
                ctx.fail(
                    "below-model-bound",
                    format!("{}: heap_size reports {used} used bytes in {} pairs, but the {} stored items need at least {lb}", self.live.tag, pairs.len(), self.seq.len()),
                );
                return false;
            }
        }
        true
    }
    fn used(&self) -> usize {
        heap_pairs(&self.live.r).iter().map(|p| p.0).sum()
    }
}

/// Thousands of pushes: used bytes never decrease on a push and never exceed the capacity, also
/// across the internal reorganisations that only long histories reach (statistics summaries that
/// compact themselves, spills, many reallocations); one clear in the middle.
fn long<E: Entry>(ctx: &mut Ctx) {
    let h = ctx.hist_no;
    let n = ctx.tier.pick(2000, 12_000, 40) as usize;
    let pool: Vec<E::V> = <E::V as Val>::gen_run(&mut ctx.rng, Dom::new(if h % 2 == 0 { Kind::Tiny } else { Kind::Hostile }), 48);
    let trained = (h / 2) % 2 == 1;
    let live = if trained { Live::<E>::trained("r", ctx, &pool) } else { Some(Live::<E>::new("r")) };
    let Some(live) = live else {
        ctx.end_history();
        return;
    };
    let mut a = Acct::<E> { live, seq: Vec::new() };
    let nforms = Live::<E>::nforms();
    ctx.log(format!("{n} pushes of values from a pool of {} (log shows the last ones), clear after {}", pool.len(), n * 3 / 4));
    for k in 0..n {
        if k == n * 3 / 4 {
            let before = heap_pairs(&a.live.r);
            if !a.live.clear(ctx) {
                break;
            }
            a.seq.clear();
            let after = heap_pairs(&a.live.r);
            if after.len() == before.len() {
                for (i, (b, a2)) in before.iter().zip(after.iter()).enumerate() {
                    if a2.1 < b.1 {
                        ctx.fail("capacity-shrank-on-clear", format!("pair #{i}: capacity {} before clear, {} after", b.1, a2.1));
                    }
                }
            }
            if ctx.failed {
                break;
            }
        }
        let v = &pool[(k * 7 + k / 48) % pool.len()];
        let before = a.used();
        if ctx.log.len() > 24 {
            ctx.log.drain(1..12);
        }
        if a.live.push(ctx, v, (k / 5) % nforms).is_none() {
            break;
        }
        // (the issued list is not needed here; keep memory flat)
        a.live.issued.clear();
        a.seq.push(v.clone());
        let pairs = heap_pairs(&a.live.r);
        let used: usize = pairs.iter().map(|p| p.0).sum();
        if let Some((i, (u, c))) = pairs.iter().enumerate().find(|(_, (u, c))| u > c) {
            ctx.fail("used-exceeds-capacity", format!("after push #{k}: pair #{i} reports used {u} > capacity {c}"));
            break;
        }
        if used < before {
            ctx.fail("used-decreased-on-push", format!("summed used bytes went from {before} to {used} on push #{k} since the start ({} since the last clear)", a.seq.len()));
            break;
        }
        if k % 512 == 511 && !a.observe(ctx, None) {
            break;
        }
    }
    ctx.count("long_pushes", n as u64);
    ctx.nontrivial = true;
    ctx.cover(&format!("long:{}", E::label()));
    ctx.end_history();
}

pub fn run<E: Entry>(ctx: &mut Ctx) {
    if ctx.what == "long" {
        return long::<E>(ctx);
    }
    let dominance = ctx.what == "dominance";
    let h = ctx.hist_no;
    let kind = if dominance { Kind::Long } else { kind_for(h) };
    let n = ctx.rng.range(2, if ctx.tier == Tier::Miri { 5 } else { 30 });
    let mut pool: Vec<E::V> = <E::V as Val>::gen_run(&mut ctx.rng, Dom::new(kind), n + 4);
    if dominance {
        // a few huge items among many tiny ones: whichever branches the huge ones route to dominate
        let tiny: Vec<E::V> = <E::V as Val>::gen_run(&mut ctx.rng, Dom::new(Kind::Tiny), n);
        let keep = ctx.rng.range(1, 3);
        pool.truncate(keep);
        let big: Vec<E::V> = pool.iter().map(|v| E::scale(v, 24)).collect();
        pool = big;
        pool.extend(tiny);
        ctx.cover(&format!("dominance:{}", E::label()));
    }
    let nforms = Live::<E>::nforms();
    // every other group of histories starts from merge_regions over a source that absorbed the
    // pool (pre-sized storages, trained codecs): capacities obtained that way must survive clear too
    let trained = !dominance && (h / 3) % 2 == 1;
    let (la, ls, ld) = if trained {
        let scaled: Vec<E::V> = pool.iter().map(|v| E::scale(v, 16)).collect();
        let (Some(la), Some(ls), Some(ld)) = (Live::<E>::trained("r", ctx, &pool), Live::<E>::trained("scaled", ctx, &scaled), Live::<E>::trained("doubled", ctx, &pool)) else {
            ctx.end_history();
            return;
        };
        ctx.cover("start:merged");
        (la, ls, ld)
    } else {
        (Live::new("r"), Live::new("scaled"), Live::new("doubled"))
    };
    let mut a = Acct::<E> { live: la, seq: Vec::new() };
    // the scaling twin receives the same history with 16x longer string payloads
    let mut s = Acct::<E> { live: ls, seq: Vec::new() };
    // the doubling twin receives every item twice (the whole sequence, then the whole sequence again)
    let mut d = Acct::<E> { live: ld, seq: Vec::new() };
    if !a.observe(ctx, None) {
        ctx.end_history();
        return;
    }
    let nops = ctx.rng.range(2, if ctx.tier == Tier::Miri { 6 } else { 45 });
    for op in 0..nops {
        let choice = ctx.rng.below(20);
        if choice == 0 && !a.seq.is_empty() || op + 1 == nops {
            // clear
            // bring the doubling twin up to date: everything a holds, twice
            let items: Vec<E::V> = a.seq.clone();
            let mut twin_ok = true;
            for _round in 0..2 {
                for v in &items {
                    if d.live.push(ctx, v, 0).is_none() {
                        twin_ok = false;
                        break;
                    }
                }
            }
            if !twin_ok {
                break;
            }
            let before = heap_pairs(&a.live.r);
            let used_before: usize = before.iter().map(|p| p.0).sum();
            let refs: Vec<&E::V> = a.seq.iter().collect();
            let payload = E::min_used(&refs);
            if !a.live.clear(ctx) || !s.live.clear(ctx) {
                break;
            }
            a.seq.clear();
            s.seq.clear();
            let after = heap_pairs(&a.live.r);
            if after.len() == before.len() {
                for (i, (b, a2)) in before.iter().zip(after.iter()).enumerate() {
                    if a2.1 < b.1 {
                        ctx.fail("capacity-shrank-on-clear", format!("pair #{i}: capacity {} before clear, {} after", b.1, a2.1));
                    }
                }
            } else {
                let (cb, ca): (usize, usize) = (before.iter().map(|p| p.1).sum(), after.iter().map(|p| p.1).sum());
                if ca < cb {
                    ctx.fail("capacity-shrank-on-clear", format!("summed capacity {cb} before clear, {ca} after"));
                }
            }
            let used_after: usize = after.iter().map(|p| p.0).sum();
            let _ = (payload, used_before);
            // doubling twin: a region that absorbed the same items twice holds twice the payload in
            // the same shape; whatever legitimately remains after clear (column headers, seed
            // offsets) is the same, whereas payload that is still accounted would differ
            if !d.live.clear(ctx) {
                break;
            }
            let doubled_after = d.used();
            if doubled_after != used_after {
                ctx.fail(
                    "clear-residue-depends-on-amount",
                    format!("after clear the region accounts {used_after} used bytes, a region that had absorbed the same items twice accounts {doubled_after}: stored data is still accounted"),
                );
            }
            let scaled_after = s.used();
            if scaled_after != used_after {
                ctx.fail(
                    "clear-residue-scales-with-payload",
                    format!("after clear the region accounts {used_after} used bytes, the same history with 16x longer strings accounts {scaled_after}: payload is still accounted"),
                );
            }
            ctx.cover("scaling-twin:compared");
            ctx.cover(&format!("clear:{}", E::label()));
            if ctx.failed || !a.observe(ctx, None) {
                break;
            }
            continue;
        }
        if choice == 1 {
            let k = ctx.rng.range(0, 6);
            let vals: Vec<E::V> = (0..k).map(|_| pool[ctx.rng.below(pool.len())].clone()).collect();
            if !reserve_items(ctx, &mut a.live, &vals) {
                break;
            }
            if !a.observe(ctx, None) {
                break;
            }
            continue;
        }
        let v = draw::<E>(ctx, &pool, a.seq.last());
        let form = ctx.rng.below(nforms);
        let before = a.used();
        if a.live.push(ctx, &v, form).is_none() {
            break;
        }
        a.seq.push(v.clone());
        let sv = E::scale(&v, 16);
        if s.live.push(ctx, &sv, form).is_none() {
            break;
        }
        s.seq.push(sv);
        if !a.observe(ctx, Some(before)) || !s.observe(ctx, None) {
            break;
        }
    }
    ctx.cover(&format!("accounting:{}", E::label()));
    ctx.end_history();
}

pub fn run_stack<E: Entry, S: IdxC<Idx<E>>>(ctx: &mut Ctx) {
    let n = ctx.rng.range(1, 40);
    let pool: Vec<E::V> = <E::V as Val>::gen_run(&mut ctx.rng, Dom::new(kind_for(ctx.hist_no / 3)), n);
    let nforms = E::form_names().len();
    let mut st = LiveStack::<E, S>::new("fs");
    ctx.log(format!("fs = FlatStack<{}, {}>::default()", E::label(), S::KIND));
    let mut prev_used = 0usize;
    for k in 0..n {
        if !{ let f__ = ctx.rng.below(nforms); st.copy(ctx, &pool[k], f__) } {
            break;
        }
        let mut pairs = Vec::new();
        let fs = &st.fs;
        if let Err(p) = panics::catch(|| fs.heap_size(|u, c| pairs.push((u, c)))) {
            ctx.fail_panic("stack-heap_size", &p);
            break;
        }
        if let Some((i, (u, c))) = pairs.iter().enumerate().find(|(_, (u, c))| u > c) {
            ctx.fail("stack-used-exceeds-capacity", format!("pair #{i}: used {u} > capacity {c}"));
            break;
        }
        let used: usize = pairs.iter().map(|p| p.0).sum();
        if used < prev_used {
            ctx.fail("stack-used-decreased-on-push", format!("used went from {prev_used} to {used}"));
            break;
        }
        prev_used = used;
        let refs: Vec<&E::V> = st.model.iter().collect();
        if let Some(lb) = E::min_used(&refs) {
            // the stack's own index container: one entry per item for the plain vector
            let idx_lb = if S::KIND == "vec" { st.model.len() * std::mem::size_of::<Idx<E>>() } else if S::KIND == "list" { 0 } else { 0 };
            if used < lb + idx_lb {
                ctx.fail(
                    "stack-below-model-bound",
                    format!("FlatStack<{}, {}> holding {} items reports {used} used bytes; region payload needs {lb}, the index container {idx_lb}", E::label(), S::KIND, st.model.len()),
                );
                break;
            }
            if lb + idx_lb > 0 {
                ctx.nontrivial = true;
            }
        }
    }
    ctx.cover(&format!("stack:{}", E::label()));
    ctx.end_history();
}
