//! C12 — consecutive-pair and columns regions issue dense indices 0,1,2,...

use super::util::*;
use super::{entry_jobs, Plan, PropDef};
use crate::check::Lvl;
use crate::driver::{Ctx, Job, Tier};
use crate::entry::{Entry, Idx};
use crate::live::Live;
use crate::val::{Dom, Kind, Same, Val};

pub const DEF: PropDef = PropDef {
    id: "C12",
    jobs,
    required,
    rule: "one case = one push sequence (empty items, ragged rows 0..n wide in ascending / descending / widest-first / widest-last / alternating / random order) on an entry whose top-level region is ConsecutiveIndexPairs or ColumnsRegion (every offset container), or that contains such a node where the returned index exposes it, across clear and merge_regions. The k-th push since creation / merge / clear must return index k (rendered index compared with the counter), and after every push every index 0..=k must read its own item with exactly its own length and cells. Non-trivial = at least 3 pushes including one empty item or a change of row width; distinct = distinct hash of (entry, operation list).",
    assumptions: &["dense nodes nested inside slices or columns do not expose their indices and are covered through reads only"],
};

fn jobs(plan: &Plan) -> Vec<Job> {
    let t = plan.tier;
    entry_jobs(plan, "C12", "dense", t.pick(150, 6000, 1), |d| d.flags.dense || d.flags.dense_nodes > 0)
}

fn required(plan: &Plan) -> Vec<String> {
    if plan.tier == Tier::Miri {
        return vec![];
    }
    let mut v = Vec::new();
    for d in plan.reg.iter().filter(|d| d.flags.dense) {
        v.push(format!("dense:{}", d.label));
        v.push(format!("clear:{}", d.label));
        v.push(format!("merge:{}", d.label));
    }
    for c in ["empty-first", "empty-middle", "empty-last", "wider-than-all-before", "narrower", "only-empty-items-first"] {
        v.push(format!("shape:{c}"));
    }
    v
}

/// Re-orders the pool by width to produce adversarial row orders.
fn arrange<V: Val>(ctx: &mut Ctx, pool: &mut Vec<V>) {
    match ctx.rng.below(6) {
        0 => pool.sort_by_key(|v| v.width()),
        1 => pool.sort_by_key(|v| std::cmp::Reverse(v.width())),
        2 => {
            // widest first
            if let Some(i) = (0..pool.len()).max_by_key(|&i| pool[i].width()) {
                pool.swap(0, i);
            }
        }
        3 => {
            if let Some(i) = (0..pool.len()).max_by_key(|&i| pool[i].width()) {
                let last = pool.len() - 1;
                pool.swap(last, i);
            }
        }
        4 => {
            // alternating narrow / wide
            pool.sort_by_key(|v| v.width());
            let n = pool.len();
            let mut out = Vec::with_capacity(n);
            for i in 0..n {
                out.push(if i % 2 == 0 { pool[i / 2].clone() } else { pool[n - 1 - i / 2].clone() });
            }
            *pool = out;
        }
        _ => {}
    }
}

pub fn run<E: Entry>(ctx: &mut Ctx) {
    let h = ctx.hist_no;
    let kind = kind_for(h);
    let n = ctx.rng.range(3, if ctx.tier == Tier::Miri { 8 } else { 40 });
    let mut pool: Vec<E::V> = <E::V as Val>::gen_run(&mut ctx.rng, Dom::new(kind), n);
    arrange(ctx, &mut pool);
    // every fifth history starts with nothing but empty items (rows without cells), so that a
    // clear / merge can happen before any column exists
    if h % 5 == 4 {
        if let Some(e) = (0..60).map(|_| <E::V as Val>::gen(&mut ctx.rng, Dom::new(Kind::Tiny))).find(|v| v.is_empty_container()) {
            let k = ctx.rng.range(1, 3);
            for _ in 0..k {
                pool.insert(0, e.clone());
            }
            ctx.cover("shape:only-empty-items-first");
        }
    }
    let only_empty_prefix = h % 5 == 4;
    let nforms = Live::<E>::nforms();
    let mut live = Live::<E>::new("r");
    let mut max_w = 0usize;
    let mut seen_nonempty = false;
    let mut interesting = false;
    let mut i = 0usize;
    while i < pool.len() {
        // occasionally restart the counter through clear or merge_regions
        let force = only_empty_prefix && i > 0 && i <= 3 && pool[i - 1].is_empty_container() && !pool[i].is_empty_container();
        if i > 0 && (force || ctx.rng.chance(1, 14)) {
            if ctx.rng.chance(1, 2) {
                if !live.clear(ctx) {
                    break;
                }
                ctx.cover(&format!("clear:{}", E::label()));
            } else {
                let Some(m) = merged::<E>(ctx, "r", &[&live.r]) else { break };
                // only values the source itself absorbed are certainly accepted by a coded region
                let absorbed: Vec<E::V> = live.issued.iter().map(|x| x.1.clone()).collect();
                live = m;
                ctx.cover(&format!("merge:{}", E::label()));
                if E::coded() {
                    pool = absorbed;
                    i = 0;
                    if pool.is_empty() {
                        break;
                    }
                }
            }
            max_w = 0;
        }
        let v = pool[i].clone();
        i += 1;
        let k = live.issued.len();
        let f__ = ctx.rng.below(nforms);
        let Some(idx) = live.push(ctx, &v, f__) else { break };
        if E::dense() {
            let got = E::idx_render(&idx);
            if got != k.to_string() {
                ctx.fail("not-dense", format!("push #{k} since creation/clear/merge returned index {got}"));
                break;
            }
            ctx.cover(&format!("dense:{}", E::label()));
        }
        // shape coverage
        let w = v.width();
        if w == 0 {
            interesting = true;
            if k == 0 {
                ctx.cover("shape:empty-first");
            } else if i == pool.len() {
                ctx.cover("shape:empty-last");
            } else if seen_nonempty {
                ctx.cover("shape:empty-middle");
            }
        } else {
            seen_nonempty = true;
        }
        if k > 0 && w > max_w {
            ctx.cover("shape:wider-than-all-before");
            interesting = true;
        }
        if k > 0 && w < max_w {
            ctx.cover("shape:narrower");
            interesting = true;
        }
        max_w = max_w.max(w);
        // index j reads the j-th item, for every j
        if !live.check_all(ctx, Lvl::BASIC, "dense-reads") {
            break;
        }
        let seq: Vec<(&E::V, Idx<E>)> = live.issued.iter().map(|(i, v)| (v, *i)).collect();
        if let Err(e) = E::walk(&seq, crate::model::Walk::Dense) {
            ctx.fail("nested-not-dense", e);
            break;
        }
        if live.issued.len() >= 3 && interesting {
            ctx.nontrivial = true;
        }
    }
    ctx.end_history();
}
