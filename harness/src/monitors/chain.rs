//! Chains of derivations, shared by C08 / C09 / C10 / C16 (workloads `chain` and
//! `stack-chain`).
//!
//! The per-property workloads derive the object under test by *one* operation from a region
//! that only ever saw pushes. Here the object goes through a random chain of derivations -
//! clear, clone, clone_from into a pre-filled destination, serde round trip, reserve_items,
//! reserve_regions, merge_regions - with pushes in between ("clone of a cleared region",
//! "deserialised copy that is then merged", "reserve, clear, merge"), and the chain ends with
//! a derivation of the property that runs the workload. Oracle: every one of these
//! operations either preserves the observable state or resets it, so at every moment the
//! object must be observationally the region `Default::default()` that received the pushes
//! since the last reset (clear / merge_regions). That twin is driven in lock-step: every
//! returned index must be equal and every read of every index issued since the reset must
//! describe the pushed value.
//!
//! Coded entries (dictionary, Huffman) never take the merge step here, so they stay
//! untrained and comparable with a default twin; their trained behaviour is C06 / C07 / C10.

use super::c02::LiveStack;
use super::util::*;
use crate::check::Lvl;
use crate::driver::{Ctx, Tier};
use crate::entry::{Entry, Idx, IdxC, Stack};
use crate::live::Live;
use crate::panics;
use crate::registry::Dyn;
use crate::val::{Dom, Val};
use flatcontainer::Region;

#[derive(Clone, Copy, Debug, PartialEq, Eq)]
pub enum Fin {
    /// C08
    Clear,
    /// C09: clone / clone_from
    Copy,
    /// C10: reserve_items / reserve_regions / merge_regions
    Presize,
    /// C16
    Serde,
}

#[derive(Clone, Copy, Debug, PartialEq, Eq)]
enum Step {
    Clear,
    Clone,
    CloneFrom,
    Serde,
    ReserveItems,
    ReserveRegions,
    Merge,
}

impl Step {
    fn fin(self) -> Fin {
        match self {
            Step::Clear => Fin::Clear,
            Step::Clone | Step::CloneFrom => Fin::Copy,
            Step::Serde => Fin::Serde,
            Step::ReserveItems | Step::ReserveRegions | Step::Merge => Fin::Presize,
        }
    }
}

fn steps(clone: bool, serde: bool, reserve_items: bool, reserve_regions: bool, coded: bool) -> Vec<Step> {
    let mut v = vec![Step::Clear];
    if clone {
        v.push(Step::Clone);
        v.push(Step::CloneFrom);
    }
    if serde {
        v.push(Step::Serde);
    }
    if reserve_items {
        v.push(Step::ReserveItems);
    }
    if reserve_regions {
        v.push(Step::ReserveRegions);
    }
    if !coded {
        v.push(Step::Merge);
    }
    v
}

/// Whether entry `d` has a derivation of kind `fin` at all.
pub fn eligible(d: &Dyn, fin: Fin) -> bool {
    let f = &d.flags;
    steps(f.clone, f.serde && f.json_lossless, f.reserve_items, f.reserve_regions, f.coded).iter().any(|s| s.fin() == fin)
}

/// Whether a FlatStack over entry `d` has a derivation of kind `fin`.
pub fn eligible_stack(d: &Dyn, fin: Fin) -> bool {
    match fin {
        Fin::Clear | Fin::Presize => true,
        Fin::Copy => d.flags.clone,
        Fin::Serde => d.flags.serde && d.flags.json_lossless,
    }
}

fn steps_of<E: Entry>() -> Vec<Step> {
    steps(E::can_clone(), E::can_serde() && E::json_lossless(), E::can_reserve_items(), E::can_reserve_regions(), E::coded())
}

/// Applies one derivation to `a`; `Ok(true)` if the step resets the region (twin must be
/// replaced by a default one), `Err(())` after a recorded violation.
fn apply<E: Entry>(ctx: &mut Ctx, a: &mut Live<E>, step: Step, pool: &[E::V], kind: &str) -> Result<bool, ()> {
    match step {
        Step::Clear => {
            if a.clear(ctx) {
                Ok(true)
            } else {
                Err(())
            }
        }
        Step::Clone => {
            let r = &a.r;
            match panics::catch(|| E::clone_r(r)) {
                Ok(Some(c)) => {
                    ctx.log(format!("{0} = {0}.clone()   (the original is dropped)", a.tag));
                    a.r = c;
                    Ok(false)
                }
                Ok(None) => Ok(false),
                Err(p) => {
                    ctx.fail_panic("clone", &p);
                    Err(())
                }
            }
        }
        Step::CloneFrom => {
            let k = ctx.rng.below(8);
            let vals: Vec<E::V> = (0..k).map(|_| pool[ctx.rng.below(pool.len())].clone()).collect();
            let Some(mut dst) = source_region::<E>(&vals) else { return Ok(false) };
            let src = &a.r;
            match panics::catch(|| E::clone_from_r(&mut dst, src)) {
                Ok(true) => {
                    ctx.log(format!("dst = region fed {k} values; dst.clone_from(&{0}); {0} = dst", a.tag));
                    a.r = dst;
                    Ok(false)
                }
                Ok(false) => Ok(false),
                Err(p) => {
                    ctx.fail_panic("clone_from", &p);
                    Err(())
                }
            }
        }
        Step::Serde => {
            let r = &a.r;
            let json = match panics::catch(|| E::to_json(r)) {
                Ok(Some(Ok(s))) => s,
                Ok(Some(Err(e))) => {
                    ctx.fail(&format!("{kind}:serialize-error"), format!("serialising failed: {e}"));
                    return Err(());
                }
                Ok(None) => return Ok(false),
                Err(p) => {
                    ctx.fail_panic("serialize", &p);
                    return Err(());
                }
            };
            match panics::catch(|| E::from_json(&json)) {
                Ok(Some(Ok(c))) => {
                    ctx.log(format!("{0} = from_json(to_json({0}))   ({1} bytes of JSON)", a.tag, json.len()));
                    a.r = c;
                    Ok(false)
                }
                Ok(Some(Err(e))) => {
                    ctx.fail(&format!("{kind}:deserialize-error"), format!("deserialising the region's own serialisation failed: {e}; JSON: {}", crate::val::clip(json)));
                    Err(())
                }
                Ok(None) => Ok(false),
                Err(p) => {
                    ctx.fail_panic("deserialize", &p);
                    Err(())
                }
            }
        }
        Step::ReserveItems => {
            let k = ctx.rng.below(6);
            let vals: Vec<E::V> = (0..k).map(|_| pool[ctx.rng.below(pool.len())].clone()).collect();
            if reserve_items(ctx, a, &vals) {
                Ok(false)
            } else {
                Err(())
            }
        }
        Step::ReserveRegions => {
            let k = ctx.rng.below(6);
            let vals: Vec<E::V> = (0..k).map(|_| pool[ctx.rng.below(pool.len())].clone()).collect();
            let Some(src) = source_region::<E>(&vals) else { return Ok(false) };
            let own = if ctx.rng.chance(1, 2) { E::clone_r(&a.r) } else { None };
            let mut sources: Vec<&E::R> = vec![&src];
            if let Some(o) = &own {
                sources.push(o);
            }
            if reserve_regions(ctx, a, &sources) {
                Ok(false)
            } else {
                Err(())
            }
        }
        Step::Merge => {
            let k = ctx.rng.below(6);
            let vals: Vec<E::V> = (0..k).map(|_| pool[ctx.rng.below(pool.len())].clone()).collect();
            let other = if ctx.rng.chance(1, 2) { source_region::<E>(&vals) } else { None };
            let mut sources: Vec<&E::R> = vec![&a.r];
            if let Some(o) = &other {
                sources.push(o);
            }
            let res = panics::catch(|| E::R::merge_regions(sources.iter().copied()));
            match res {
                Ok(m) => {
                    ctx.log(format!("{0} = merge_regions([{0}{1}])", a.tag, if other.is_some() { ", another region" } else { "" }));
                    a.r = m;
                    a.issued.clear();
                    Ok(true)
                }
                Err(p) => {
                    ctx.fail_panic("merge_regions", &p);
                    Err(())
                }
            }
        }
    }
}

/// Lock-step pushes into the derived region and its twin.
fn pushes<E: Entry>(ctx: &mut Ctx, a: &mut Live<E>, t: &mut Live<E>, n: usize, pool: &[E::V], last: &mut Option<E::V>, kind: &str, after: &str) -> bool {
    let nforms = Live::<E>::nforms();
    for k in 0..n {
        // the first push after a derivation repeats the last pushed value three times out
        // of four: the item most likely to betray residue or forgotten bookkeeping
        let v = if k == 0 && last.is_some() && ctx.rng.chance(3, 4) { last.clone().unwrap() } else { draw::<E>(ctx, pool, last.as_ref()) };
        let form = ctx.rng.below(nforms);
        if !push_both(ctx, a, t, &v, form, form, kind, after) {
            return false;
        }
        *last = Some(v);
    }
    a.check_all(ctx, Lvl::BASIC, kind)
}

pub fn run<E: Entry>(ctx: &mut Ctx, fin: Fin, kind: &str) {
    let all = steps_of::<E>();
    let finals: Vec<Step> = all.iter().copied().filter(|s| s.fin() == fin).collect();
    if finals.is_empty() {
        ctx.end_history();
        return;
    }
    let h = ctx.hist_no;
    let mut dom = Dom::new(kind_for(h));
    if all.contains(&Step::Serde) {
        dom = dom.json();
    }
    let pool: Vec<E::V> = <E::V as Val>::gen_run(&mut ctx.rng, dom, 10);
    let mut a = Live::<E>::new("a");
    let mut t = Live::<E>::new("twin");
    ctx.log("a = Default::default(); twin = Default::default()".into());
    let small = ctx.tier == Tier::Miri;
    let nsteps = ctx.rng.range(1, if small { 2 } else { 5 });
    let mut last: Option<E::V> = None;
    let mut names: Vec<Step> = Vec::new();
    for s in 0..=nsteps {
        // pushes before the step (possibly none: derivations back to back)
        let n = if ctx.rng.chance(1, 4) { 0 } else { ctx.rng.range(1, if small { 3 } else { 9 }) };
        if !pushes::<E>(ctx, &mut a, &mut t, n, &pool, &mut last, kind, "chain of derivations") {
            ctx.end_history();
            return;
        }
        let step = if s == nsteps { finals[ctx.rng.below(finals.len())] } else { all[ctx.rng.below(all.len())] };
        names.push(step);
        match apply::<E>(ctx, &mut a, step, &pool, kind) {
            Ok(true) => {
                t = Live::<E>::new("twin");
                ctx.log("twin = Default::default()".into());
            }
            Ok(false) => {}
            Err(()) => {
                ctx.end_history();
                return;
            }
        }
        // whatever was issued since the last reset must still read the same
        if !a.check_all(ctx, Lvl::BASIC, kind) {
            ctx.end_history();
            return;
        }
    }
    let n = ctx.rng.range(1, if small { 3 } else { 10 });
    let what = format!("after the chain {names:?}");
    if pushes::<E>(ctx, &mut a, &mut t, n, &pool, &mut last, kind, &what)
        && next_generation::<E>(ctx, &a, &t, kind, &format!("regions merged from a / from its twin, {what}"))
    {
        ctx.nontrivial = true;
        if names.len() >= 3 {
            ctx.cover(&format!("chain>=3:{:?}", fin));
        }
        for w in names.windows(2) {
            ctx.cover(&format!("chain-pair:{:?}>{:?}", w[0], w[1]));
        }
    }
    ctx.cover(&format!("chain:{}", E::label()));
    ctx.end_history();
}

/// The coverage classes a `chain` workload must reach for `fin` (besides `chain:<entry>`).
pub fn required_pairs(fin: Fin) -> Vec<String> {
    let all = [Step::Clear, Step::Clone, Step::CloneFrom, Step::Serde, Step::ReserveItems, Step::ReserveRegions, Step::Merge];
    let mut v = vec![format!("chain>=3:{fin:?}")];
    for a in all {
        for b in all.iter().filter(|b| b.fin() == fin) {
            v.push(format!("chain-pair:{a:?}>{b:?}"));
        }
    }
    v
}

// ---------------------------------------------------------------- FlatStack

fn stack_steps<E: Entry>() -> Vec<Step> {
    let mut v = vec![Step::Clear, Step::ReserveItems, Step::ReserveRegions];
    if E::can_clone() {
        v.push(Step::Clone);
        v.push(Step::CloneFrom);
    }
    if E::can_serde() && E::json_lossless() {
        v.push(Step::Serde);
    }
    if !E::coded() {
        v.push(Step::Merge);
    }
    // `FlatStack::reserve(n)` always exists; `reserve_items` is called where the entry has it
    v.retain(|s| *s != Step::ReserveRegions || E::can_reserve_regions());
    v
}

fn stack_apply<E: Entry, S: IdxC<Idx<E>>>(ctx: &mut Ctx, a: &mut LiveStack<E, S>, step: Step, pool: &[E::V], kind: &str) -> Result<(), ()> {
    let prefilled = |ctx: &mut Ctx| -> Option<LiveStack<E, S>> {
        let mut d = LiveStack::<E, S>::new("dst");
        for _ in 0..ctx.rng.below(8) {
            let v = pool[ctx.rng.below(pool.len())].clone();
            if !d.copy(ctx, &v, 0) {
                return None;
            }
        }
        Some(d)
    };
    match step {
        Step::Clear => {
            let fs = &mut a.fs;
            match panics::catch(|| fs.clear()) {
                Ok(()) => {
                    ctx.log(format!("{}.clear()", a.tag));
                    a.model.clear();
                    Ok(())
                }
                Err(p) => {
                    ctx.fail_panic("stack-clear", &p);
                    Err(())
                }
            }
        }
        Step::Clone => {
            let fs = &a.fs;
            match panics::catch(|| E::fs_clone(fs)) {
                Ok(Some(c)) => {
                    ctx.log(format!("{0} = {0}.clone()", a.tag));
                    a.fs = c;
                    Ok(())
                }
                Ok(None) => Ok(()),
                Err(p) => {
                    ctx.fail_panic("stack-clone", &p);
                    Err(())
                }
            }
        }
        Step::CloneFrom => {
            let Some(mut d) = prefilled(ctx) else { return Err(()) };
            let src = &a.fs;
            let dst = &mut d.fs;
            match panics::catch(|| E::fs_clone_from(dst, src)) {
                Ok(true) => {
                    ctx.log(format!("dst.clone_from(&{0}); {0} = dst", a.tag));
                    a.fs = d.fs;
                    Ok(())
                }
                Ok(false) => Ok(()),
                Err(p) => {
                    ctx.fail_panic("stack-clone_from", &p);
                    Err(())
                }
            }
        }
        Step::Serde => {
            let fs = &a.fs;
            let json = match panics::catch(|| E::fs_to_json(fs)) {
                Ok(Some(Ok(s))) => s,
                Ok(Some(Err(e))) => {
                    ctx.fail(&format!("{kind}:stack-serialize-error"), e);
                    return Err(());
                }
                Ok(None) => return Ok(()),
                Err(p) => {
                    ctx.fail_panic("stack-serialize", &p);
                    return Err(());
                }
            };
            match panics::catch(|| E::fs_from_json::<S>(&json)) {
                Ok(Some(Ok(c))) => {
                    ctx.log(format!("{0} = from_json(to_json({0}))   ({1} bytes)", a.tag, json.len()));
                    a.fs = c;
                    Ok(())
                }
                Ok(Some(Err(e))) => {
                    ctx.fail(&format!("{kind}:stack-deserialize-error"), format!("{e}; JSON: {}", crate::val::clip(json)));
                    Err(())
                }
                Ok(None) => Ok(()),
                Err(p) => {
                    ctx.fail_panic("stack-deserialize", &p);
                    Err(())
                }
            }
        }
        Step::ReserveItems => {
            let k = ctx.rng.below(6);
            let vals: Vec<E::V> = (0..k).map(|_| pool[ctx.rng.below(pool.len())].clone()).collect();
            let n = *ctx.rng.pick(&[0usize, 1, 9, 300]);
            let fs = &mut a.fs;
            match panics::catch(|| {
                fs.reserve(n);
                E::fs_reserve_items(fs, &vals)
            }) {
                Ok(_) => {
                    ctx.log(format!("{0}.reserve({n}); {0}.reserve_items({k} values)", a.tag));
                    Ok(())
                }
                Err(p) => {
                    ctx.fail_panic("stack-reserve_items", &p);
                    Err(())
                }
            }
        }
        Step::ReserveRegions => {
            let k = ctx.rng.below(6);
            let vals: Vec<E::V> = (0..k).map(|_| pool[ctx.rng.below(pool.len())].clone()).collect();
            let Some(src) = source_region::<E>(&vals) else { return Ok(()) };
            let fs = &mut a.fs;
            match panics::catch(|| fs.reserve_regions(std::iter::once(&src))) {
                Ok(()) => {
                    ctx.log(format!("{}.reserve_regions([source of {k} values])", a.tag));
                    Ok(())
                }
                Err(p) => {
                    ctx.fail_panic("stack-reserve_regions", &p);
                    Err(())
                }
            }
        }
        Step::Merge => {
            let other = if ctx.rng.chance(1, 2) { prefilled(ctx) } else { None };
            let mut refs: Vec<&Stack<E, S>> = vec![&a.fs];
            if let Some(o) = &other {
                refs.push(&o.fs);
            }
            match panics::catch(|| Stack::<E, S>::merge_capacity(refs.iter().copied())) {
                Ok(m) => {
                    ctx.log(format!("{0} = FlatStack::merge_capacity([{0}{1}])", a.tag, if other.is_some() { ", another stack" } else { "" }));
                    a.fs = m;
                    a.model.clear();
                    Ok(())
                }
                Err(p) => {
                    ctx.fail_panic("merge_capacity", &p);
                    Err(())
                }
            }
        }
    }
}

fn stack_agrees<E: Entry, S: IdxC<Idx<E>>>(ctx: &mut Ctx, a: &LiveStack<E, S>, kind: &str) -> bool {
    let n = a.model.len();
    if a.fs.len() != n || a.fs.is_empty() != (n == 0) {
        ctx.fail(&format!("{kind}:len"), format!("{} holds {n} copies since its last reset but reports len {} / is_empty {}", a.tag, a.fs.len(), a.fs.is_empty()));
        return false;
    }
    let fs = &a.fs;
    match panics::catch(|| fs.iter().count()) {
        Ok(c) if c == n => {}
        Ok(c) => {
            ctx.fail(&format!("{kind}:iter"), format!("{} holds {n} copies but iteration yields {c} items", a.tag));
            return false;
        }
        Err(p) => {
            ctx.fail_panic("stack-iter", &p);
            return false;
        }
    }
    a.check_all_get(ctx, Lvl::BASIC, kind)
}

pub fn run_stack<E: Entry, S: IdxC<Idx<E>>>(ctx: &mut Ctx, fin: Fin, kind: &str) {
    let all = stack_steps::<E>();
    let finals: Vec<Step> = all.iter().copied().filter(|s| s.fin() == fin).collect();
    if finals.is_empty() {
        ctx.end_history();
        return;
    }
    let mut dom = Dom::new(kind_for(ctx.hist_no / 3));
    if all.contains(&Step::Serde) {
        dom = dom.json();
    }
    let pool: Vec<E::V> = <E::V as Val>::gen_run(&mut ctx.rng, dom, 10);
    let nforms = E::form_names().len();
    let mut a = LiveStack::<E, S>::new("a");
    ctx.log(format!("a = FlatStack<{}, {}>::default()", E::label(), S::KIND));
    let nsteps = ctx.rng.range(1, 5);
    let mut names = Vec::new();
    for s in 0..=nsteps + 1 {
        let n = if s <= nsteps && ctx.rng.chance(1, 4) { 0 } else { ctx.rng.range(1, 9) };
        for _ in 0..n {
            let v = pool[ctx.rng.below(pool.len())].clone();
            let form = ctx.rng.below(nforms);
            if !a.copy(ctx, &v, form) {
                ctx.end_history();
                return;
            }
        }
        if !stack_agrees(ctx, &a, kind) {
            ctx.end_history();
            return;
        }
        if s > nsteps {
            break;
        }
        let step = if s == nsteps { finals[ctx.rng.below(finals.len())] } else { all[ctx.rng.below(all.len())] };
        names.push(step);
        if stack_apply::<E, S>(ctx, &mut a, step, &pool, kind).is_err() || !stack_agrees(ctx, &a, kind) {
            ctx.end_history();
            return;
        }
    }
    ctx.nontrivial = true;
    ctx.cover(&format!("stack-chain:{}", E::label()));
    ctx.end_history();
}
