//! C07 — dictionary codec: exact bytes back or refusal, frequent strings cost one byte.

use super::{standalone, Plan, PropDef};
use crate::driver::{Ctx, Job, Tier};
use crate::live::heap_of;
use crate::panics;
use crate::rng::Rng;
use flatcontainer::impls::codec::{CodecRegion, DictionaryCodec};
use flatcontainer::{Push, Region};
use std::collections::{BTreeMap, BTreeSet};

pub const DEF: PropDef = PropDef {
    id: "C07",
    jobs,
    required,
    rule: "one case = a chain of up to 4 generations of CodecRegion<DictionaryCodec>: generation 0 is 1..8 default regions fed byte strings from a pool (all 256 first-byte values, lengths 0..8, strings equal to / prefixed by frequent strings, single bytes), generation g+1 is merge_regions over generation g's regions. The model records, per region, the multiset of strings and the set of first bytes it absorbed. After every push every issued index is read back byte for byte. A push may panic only if the region came from merge_regions and the string is non-empty with a first byte that none of its source regions saw as a first byte (only then can it collide with a tag); default and cleared regions never refuse; the empty string is never refused. Stored cost = extent (end - start) of the returned index in the inner byte region; a string must cost exactly 1 byte when (dominant regime) it accounts for >= 75 % of the pushes into the sources and some first-byte value is free, or (exact regime, <= 512 distinct strings in the sources) its count is strictly above the (F+1)-th largest count, F being the number of free first-byte values. Non-trivial = at least one dictionary hit and one literal in a merged region; distinct = distinct hash of the operation list.",
    assumptions: &[
        "the state of a region after a refused push is unspecified; hostile pushes go to a twin merged from the same sources, which is dropped after a refusal",
        "beyond 512 distinct strings the heavy-hitter summary is approximate and only the dominant-string claim is checked",
    ],
};

type Dict = CodecRegion<DictionaryCodec>;

/// Numbers of distinct strings around the sizes at which the heavy-hitter summary compacts
/// (buffer of 1024 entries, 512 kept).
const BOUNDARY_DISTINCT: [usize; 11] = [1, 2, 255, 256, 257, 511, 512, 513, 1023, 1024, 1025];

fn jobs(plan: &Plan) -> Vec<Job> {
    let t = plan.tier;
    let mut v = Vec::new();
    for h in 0..t.pick(400, 40000, 2) {
        v.push(standalone("codec-dict", "generations", h, generations));
    }
    for h in 0..t.pick(3, 40, 0) {
        v.push(standalone("codec-dict", "compaction", h, compaction));
    }
    for h in 0..BOUNDARY_DISTINCT.len() as u64 * 2 {
        v.push(standalone("codec-dict", "summary-boundaries", h, summary_boundaries));
    }
    v
}

fn required(plan: &Plan) -> Vec<String> {
    if plan.tier == Tier::Miri {
        return vec![];
    }
    [
        "dictionary-hit",
        "literal:first-byte-seen",
        "literal:first-byte-unseen",
        "refusal",
        "empty:default",
        "empty:merged",
        "regime:dominant",
        "regime:exact",
        "compaction-crossed",
        "clear-and-refill",
        "generations:4",
        "sources:>=4",
        "no-free-tag",
        "pool-shape:0",
        "pool-shape:1",
        "pool-shape:2",
        "pool-shape:3",
        "pool-shape:4",
        "entry-in-last-table-slot",
        "summary-boundary:512",
        "summary-boundary:1024",
    ]
    .iter()
    .map(|s| s.to_string())
    .collect()
}

/// What a region absorbed since its creation / last clear.
#[derive(Default, Clone)]
struct Absorbed {
    strings: BTreeMap<Vec<u8>, usize>,
    first: BTreeSet<u8>,
    pushes: usize,
}

struct Obs {
    r: Dict,
    absorbed: Absorbed,
    issued: Vec<((usize, usize), Vec<u8>)>,
    /// model of the sources this region was merged from (None: default / cleared)
    sources: Option<Vec<Absorbed>>,
    name: String,
}

enum Outcome {
    Stored(usize),
    Refused,
    Bad,
}

impl Obs {
    fn fresh(name: &str) -> Self {
        Obs { r: Dict::default(), absorbed: Absorbed::default(), issued: Vec::new(), sources: None, name: name.to_string() }
    }
    fn merged(ctx: &mut Ctx, name: &str, from: &[&Obs]) -> Option<Self> {
        ctx.log(format!("{name} = merge_regions([{}])", from.iter().map(|o| o.name.clone()).collect::<Vec<_>>().join(", ")));
        match panics::catch(|| Dict::merge_regions(from.iter().map(|o| &o.r))) {
            Ok(r) => Some(Obs {
                r,
                absorbed: Absorbed::default(),
                issued: Vec::new(),
                sources: Some(from.iter().map(|o| o.absorbed.clone()).collect()),
                name: name.to_string(),
            }),
            Err(p) => {
                ctx.fail(&format!("merge-panic:{}", p.file()), format!("merge_regions panicked: {}", p.short()));
                None
            }
        }
    }
    fn seen_first(&self, b: u8) -> bool {
        self.sources.as_ref().map_or(false, |s| s.iter().any(|a| a.first.contains(&b)))
    }
    fn may_refuse(&self, s: &[u8]) -> bool {
        match (&self.sources, s.first()) {
            (Some(src), Some(b)) => src.iter().any(|a| a.pushes > 0) && !self.seen_first(*b),
            _ => false,
        }
    }
    fn push(&mut self, ctx: &mut Ctx, s: &[u8]) -> Outcome {
        let r = &mut self.r;
        match panics::catch(|| r.push(s)) {
            Ok(idx) => {
                // the bytes this push stored: the extent of the returned index in the inner byte
                // region (not heap_size, which may also account the codec's own tables)
                let cost = idx.1 - idx.0;
                if self.issued.len() < 60 {
                    ctx.log(format!("{}.push({:?}) -> {:?} ({} bytes stored)", self.name, s, idx, cost));
                }
                self.issued.push((idx, s.to_vec()));
                if !s.is_empty() {
                    *self.absorbed.strings.entry(s.to_vec()).or_insert(0) += 1;
                    self.absorbed.first.insert(s[0]);
                }
                self.absorbed.pushes += 1;
                Outcome::Stored(cost)
            }
            Err(p) => {
                ctx.log(format!("{}.push({:?}) refused: {}", self.name, s, p.short()));
                if self.may_refuse(s) {
                    ctx.cover("refusal");
                    ctx.count("refusals", 1);
                    Outcome::Refused
                } else {
                    let why = if self.sources.is_none() {
                        "a default / cleared region has no dictionary".to_string()
                    } else if s.is_empty() {
                        "the empty string can always be stored".to_string()
                    } else {
                        format!("its first byte {} was seen as a first byte by the source regions, so it cannot be a tag", s[0])
                    };
                    ctx.fail(&format!("refused-representable-input:{}", p.file()), format!("{} refused {:?} although {why}: {}", self.name, s, p.short()));
                    Outcome::Bad
                }
            }
        }
    }
    fn check(&self, ctx: &mut Ctx, recent_only: bool) -> bool {
        let n = self.issued.len();
        let start = if recent_only && n > 24 { n - 24 } else { 0 };
        for k in (start..n).chain(if start > 0 { 0..3.min(n) } else { 0..0 }) {
            let (idx, want) = &self.issued[k];
            let r = &self.r;
            match panics::catch(|| r.index(*idx).to_vec()) {
                Ok(got) => {
                    ctx.count("reads_compared", 1);
                    if &got != want {
                        ctx.fail("reads-different-bytes", format!("{}: pushed {:?} (push #{k}), index {:?} reads {:?}", self.name, want, idx, got));
                        return false;
                    }
                }
                Err(p) => {
                    ctx.fail(&format!("read-panic:{}", p.file()), format!("{}: reading {:?} (push #{k}) panicked: {}", self.name, want, p.short()));
                    return false;
                }
            }
        }
        true
    }
    /// Strings that the model says must be stored in one byte in this (merged) region.
    fn must_be_one_byte(&self, ctx: &mut Ctx) -> BTreeSet<Vec<u8>> {
        let mut out = BTreeSet::new();
        let Some(src) = &self.sources else { return out };
        let mut total: BTreeMap<Vec<u8>, usize> = BTreeMap::new();
        let mut first: BTreeSet<u8> = BTreeSet::new();
        let mut pushes = 0usize;
        for a in src {
            for (s, c) in &a.strings {
                *total.entry(s.clone()).or_insert(0) += c;
            }
            first.extend(a.first.iter().copied());
            pushes += a.strings.values().sum::<usize>();
        }
        let free = 256 - first.len();
        if free == 0 {
            ctx.cover("no-free-tag");
            return out;
        }
        if pushes == 0 {
            return out;
        }
        // dominant regime
        for (s, c) in &total {
            if *c * 4 >= pushes * 3 {
                out.insert(s.clone());
                ctx.cover("regime:dominant");
            }
        }
        // exact regime: no source and not their union exceeds 512 distinct strings
        if total.len() <= 512 && src.iter().all(|a| a.strings.len() <= 512) {
            let mut counts: Vec<usize> = total.values().copied().collect();
            counts.sort_unstable_by(|a, b| b.cmp(a));
            let threshold = counts.get(free).copied().unwrap_or(0); // the (F+1)-th largest
            for (s, c) in &total {
                if *c > threshold {
                    out.insert(s.clone());
                }
            }
            ctx.cover("regime:exact");
        }
        out
    }
}

fn gen_string(rng: &mut Rng, pool: &[Vec<u8>]) -> Vec<u8> {
    match rng.below(10) {
        0 => Vec::new(),
        1 => vec![rng.next() as u8],
        2 => {
            // prefixed by / equal to a pool string
            let mut s = pool[rng.below(pool.len())].clone();
            if rng.chance(1, 2) {
                s.push(rng.next() as u8);
            }
            s
        }
        3 => {
            let n = rng.range(1, 8);
            (0..n).map(|_| rng.next() as u8).collect()
        }
        4 => {
            // low first bytes are the first to become tags
            let mut s = vec![rng.below(6) as u8];
            s.extend((0..rng.below(4)).map(|_| rng.next() as u8));
            s
        }
        _ => pool[rng.below(pool.len())].clone(),
    }
}

fn generations(ctx: &mut Ctx) {
    let mut rng = Rng::derive(ctx.seed, &["c07-generations"], ctx.hist_no);
    let h = ctx.hist_no;
    // the pool: a few frequent strings plus a tail; first bytes either clustered or spread over all values
    let spread = h % 3 == 0;
    // pool shapes: few clustered first bytes / first bytes spread over all values / only very low
    // first bytes (so that assigned tags lie above every seen first byte and the last slot of the
    // tag table is a real entry) / many distinct ASCII strings (more entries than the largest
    // first byte)
    let shape = h % 5;
    let npool = match shape {
        3 => rng.range(2, 30),
        4 => rng.range(240, 330),
        _ => rng.range(1, 40),
    };
    let mut pool: Vec<Vec<u8>> = Vec::new();
    for i in 0..npool {
        let first: u8 = match shape {
            3 => rng.below(4) as u8,
            4 => b'a' + (i % 20) as u8,
            _ if spread => rng.next() as u8,
            _ => b'a' + (i % 5) as u8,
        };
        let mut s = vec![first];
        if shape == 4 {
            s.extend(format!("w{i}").into_bytes());
        } else {
            s.extend((0..rng.below(8)).map(|_| if spread { rng.next() as u8 } else { b'a' + rng.below(4) as u8 }));
        }
        pool.push(s);
    }
    pool.sort();
    pool.dedup();
    if h % 7 == 0 {
        // all 256 first-byte values are seen: no tag is free
        for b in 0..=255u8 {
            pool.push(vec![b, b'x']);
        }
    }
    let nsrc = 1 + (h % 8) as usize;
    if nsrc >= 4 {
        ctx.cover("sources:>=4");
    }
    let mut current: Vec<Obs> = (0..nsrc).map(|i| Obs::fresh(&format!("src{i}"))).collect();
    // generation 0: default regions accept everything
    // ties in the ranking are broken by key order somewhere down the line: put the heavy string at
    // either end of that order as well as at random positions
    let heavy = match (shape, h % 3) {
        (4, 0) => pool.len() - 1,
        (4, 1) => 0,
        _ => rng.range(0, pool.len() - 1),
    };
    ctx.cover(&format!("pool-shape:{shape}"));
    for (i, o) in current.iter_mut().enumerate() {
        if h % 7 == 0 && i == 0 {
            // make sure every first-byte value really is absorbed
            for b in 0..=255u8 {
                if !matches!(o.push(ctx, &[b, b'x']), Outcome::Stored(_)) {
                    ctx.end_history();
                    return;
                }
            }
        }
        // shapes 3 and 4: tags are contended (shape 4 has more distinct strings than free tags).
        // Every pool string is absorbed three times by ONE source; the heavy string is absorbed
        // by EVERY source - either often (variant A) or only twice per source (variant B, where its
        // per-source count is below everybody else's and only the sum over the sources ranks it first)
        let variant_b = shape == 4 && nsrc >= 4 && h % 2 == 0;
        let per_source_heavy = if variant_b { 2 } else { 10 };
        let mine: Vec<&Vec<u8>> = if shape >= 3 { pool.iter().enumerate().filter(|(k, _)| k % nsrc == i && *k != heavy).map(|(_, s)| s).collect() } else { Vec::new() };
        let n = if shape >= 3 { mine.len() * 3 + per_source_heavy } else { rng.range(0, 80) };
        for k in 0..n {
            let s = if shape >= 3 {
                if k < mine.len() * 3 { mine[k % mine.len()].clone() } else { pool[heavy].clone() }
            } else if rng.chance(3, 5) { pool[heavy].clone() } else if rng.chance(1, 8) { gen_string(&mut rng, &pool) } else { pool[rng.below(pool.len())].clone() };
            if s.is_empty() {
                ctx.cover("empty:default");
            }
            match o.push(ctx, &s) {
                Outcome::Stored(_) => {}
                _ => {
                    ctx.end_history();
                    return;
                }
            }
            if k % 16 == 0 && !o.check(ctx, true) {
                ctx.end_history();
                return;
            }
        }
        if i == 0 && rng.chance(1, 4) && !o.issued.is_empty() {
            // clear and refill: the region is a default one again
            o.r.clear();
            ctx.log(format!("{}.clear()", o.name));
            o.absorbed = Absorbed::default();
            o.issued.clear();
            o.sources = None;
            for _ in 0..rng.range(1, 20) {
                let s = gen_string(&mut rng, &pool);
                if !matches!(o.push(ctx, &s), Outcome::Stored(_)) {
                    ctx.end_history();
                    return;
                }
            }
            ctx.cover("clear-and-refill");
        }
        if !o.check(ctx, false) {
            ctx.end_history();
            return;
        }
    }
    let gens = 1 + (h % 4) as usize;
    let mut hit = false;
    let mut literal = false;
    for g in 1..=gens {
        let refs: Vec<&Obs> = current.iter().collect();
        let Some(mut m) = Obs::merged(ctx, &format!("gen{g}"), &refs) else { break };
        let Some(mut hostile) = Obs::merged(ctx, &format!("gen{g}-hostile"), &refs) else { break };
        let one_byte = m.must_be_one_byte(ctx);
        ctx.log(format!("model: {} strings must cost one byte in gen{g} (pool shape {shape}, {} sources, heavy string {:?})", one_byte.len(), nsrc, String::from_utf8_lossy(&pool[heavy])));
        // covered pushes into m: everything the sources absorbed must be accepted
        let mut covered: Vec<Vec<u8>> = refs.iter().flat_map(|o| o.absorbed.strings.keys().cloned()).collect();
        covered.push(Vec::new());
        let sweep = covered.len() <= 400;
        let n = if sweep { covered.len() + rng.range(1, 40) } else { rng.range(1, 80) };
        // coverage: is the highest tag that can be assigned above every first byte the sources saw?
        {
            let seen_max = refs.iter().flat_map(|o| o.absorbed.first.iter().copied()).max();
            let distinct: usize = covered.len() - 1;
            if let Some(mx) = seen_max {
                if distinct > mx as usize {
                    ctx.cover("entry-in-last-table-slot");
                }
            }
        }
        let mut ok = true;
        for k in 0..n {
            let s = if sweep && k < covered.len() {
                covered[k].clone()
            } else if !one_byte.is_empty() && rng.chance(1, 2) {
                one_byte.iter().nth(rng.below(one_byte.len())).unwrap().clone()
            } else {
                covered[rng.below(covered.len())].clone()
            };
            if s.is_empty() {
                ctx.cover("empty:merged");
            }
            match m.push(ctx, &s) {
                Outcome::Stored(cost) => {
                    if cost == 1 && s.len() != 1 {
                        hit = true;
                        ctx.cover("dictionary-hit");
                    } else if cost == s.len() && !s.is_empty() {
                        literal = true;
                        ctx.cover("literal:first-byte-seen");
                    }
                    if one_byte.contains(&s) && cost != 1 {
                        ctx.fail(
                            "frequent-string-not-one-byte",
                            format!("{:?} dominates the source statistics (model says it must be a dictionary entry) but was stored in {cost} bytes", s),
                        );
                        ok = false;
                    }
                }
                Outcome::Refused => {
                    // cannot happen for covered strings (may_refuse is false) - handled as Bad in push
                    ok = false;
                }
                Outcome::Bad => ok = false,
            }
            if !ok || (k % 8 == 0 && !m.check(ctx, true)) {
                ok = false;
                break;
            }
        }
        if !ok || !m.check(ctx, false) {
            break;
        }
        // hostile pushes into the twin: arbitrary strings; refusal allowed only where the model permits
        for _ in 0..rng.range(1, 40) {
            let s = gen_string(&mut rng, &pool);
            let unseen = s.first().map_or(false, |b| !hostile.seen_first(*b));
            match hostile.push(ctx, &s) {
                Outcome::Stored(_) => {
                    if unseen {
                        ctx.cover("literal:first-byte-unseen");
                    }
                    if !hostile.check(ctx, true) {
                        ok = false;
                        break;
                    }
                }
                Outcome::Refused => break,
                Outcome::Bad => {
                    ok = false;
                    break;
                }
            }
        }
        if !ok {
            break;
        }
        if g == 4 {
            ctx.cover("generations:4");
        }
        // next generation is merged from this one (plus, sometimes, an older region)
        let keep_old = rng.chance(1, 3);
        let mut next = vec![m];
        if keep_old {
            if let Some(o) = current.pop() {
                next.push(o);
            }
        }
        current = next;
    }
    ctx.nontrivial = hit && literal;
    ctx.end_history();
}

/// More than 1024 distinct strings and more than 10 000 pushes: the heavy-hitter summary
/// compacts; reads must stay exact and a dominant string must still cost one byte.
fn compaction(ctx: &mut Ctx) {
    let mut rng = Rng::derive(ctx.seed, &["c07-compaction"], ctx.hist_no);
    let mut src = Obs::fresh("src");
    let dominant: Vec<u8> = b"dominant-string".to_vec();
    let n = 12_000 + rng.below(3000);
    for k in 0..n {
        let s: Vec<u8> = if k % 5 != 0 {
            dominant.clone()
        } else {
            // ~2400 distinct tail strings, first bytes restricted so that tags remain free
            let id = rng.below(2400);
            format!("t{id:05}").into_bytes()
        };
        if !matches!(src.push(ctx, &s), Outcome::Stored(_)) {
            ctx.end_history();
            return;
        }
        if k % 1000 == 0 && !src.check(ctx, true) {
            ctx.end_history();
            return;
        }
    }
    ctx.log.clear();
    ctx.log(format!("src = default region fed {n} strings: 80 % {:?}, the rest from ~2400 distinct tail strings", String::from_utf8_lossy(&dominant)));
    if src.absorbed.strings.len() > 1024 && n > 10_000 {
        ctx.cover("compaction-crossed");
    }
    let Some(mut m) = Obs::merged(ctx, "merged", &[&src]) else {
        ctx.end_history();
        return;
    };
    let one = m.must_be_one_byte(ctx);
    if !one.contains(&dominant) {
        ctx.note("harness error: the model does not classify the dominant string".into());
    }
    let tail: Vec<Vec<u8>> = src.absorbed.strings.keys().take(300).cloned().collect();
    for k in 0..2000 {
        let s = if k % 3 == 0 { tail[rng.below(tail.len())].clone() } else { dominant.clone() };
        match m.push(ctx, &s) {
            Outcome::Stored(cost) => {
                if s == dominant && cost != 1 {
                    ctx.fail("frequent-string-not-one-byte", format!("the string with 80 % of {n} pushes was stored in {cost} bytes after the summary compacted"));
                    break;
                }
                if cost == 1 {
                    ctx.cover("dictionary-hit");
                }
            }
            _ => break,
        }
        if k % 100 == 0 && !m.check(ctx, true) {
            break;
        }
    }
    let _ = m.check(ctx, false);
    ctx.nontrivial = true;
    ctx.end_history();
}

/// d distinct strings, absorbed round-robin until the summary buffer has filled once
/// (variant 0) or twice (variant 1), for d around the summary's internal sizes; then a merged
/// generation that re-absorbs them. Nothing may panic and everything must read back.
fn summary_boundaries(ctx: &mut Ctx) {
    let d = BOUNDARY_DISTINCT[(ctx.hist_no / 2) as usize];
    let fills = 1 + (ctx.hist_no % 2) as usize;
    let strings: Vec<Vec<u8>> = (0..d).map(|i| format!("k{i:04}").into_bytes()).collect();
    let total = 1024 * fills + 3;
    let mut src = Obs::fresh("src");
    ctx.log(format!("src = default region fed {total} strings cycling through {d} distinct ones"));
    for k in 0..total {
        if !matches!(src.push(ctx, &strings[k % d]), Outcome::Stored(_)) {
            ctx.end_history();
            return;
        }
        if k % 256 == 0 && !src.check(ctx, true) {
            ctx.end_history();
            return;
        }
    }
    ctx.log.truncate(1);
    if !src.check(ctx, false) {
        ctx.end_history();
        return;
    }
    ctx.cover(&format!("summary-boundary:{d}"));
    if let Some(mut m) = Obs::merged(ctx, "merged", &[&src]) {
        for (k, s) in strings.iter().enumerate() {
            if !matches!(m.push(ctx, s), Outcome::Stored(_)) {
                break;
            }
            if k % 64 == 0 && !m.check(ctx, true) {
                break;
            }
        }
        let _ = m.check(ctx, false);
    }
    ctx.nontrivial = true;
    ctx.end_history();
}
