//! Helpers shared by the entry-based monitors.

use crate::check::Lvl;
use crate::driver::Ctx;
use crate::entry::{Entry, Idx};
use crate::live::Live;
use crate::panics;
use crate::val::{Dom, Kind, Same, Val};
use flatcontainer::Region;

pub fn kind_for(h: u64) -> Kind {
    [Kind::Tiny, Kind::Hostile, Kind::Long][(h % 3) as usize]
}

/// Random values from a pool, with repeats of the previous value.
pub fn draw<E: Entry>(ctx: &mut Ctx, pool: &[E::V], prev: Option<&E::V>) -> E::V {
    if let Some(p) = prev {
        if ctx.rng.chance(1, 4) {
            return p.clone();
        }
    }
    pool[ctx.rng.below(pool.len())].clone()
}

/// A source region fed `vals` through the canonical form. `None` if feeding panics.
pub fn source_region<E: Entry>(vals: &[E::V]) -> Option<E::R> {
    panics::catch(|| {
        let mut r = E::R::default();
        let mut aux = E::R::default();
        for v in vals {
            let _ = E::push(&mut r, v, 0, &mut aux);
        }
        r
    })
    .ok()
}

/// Pushes `v` into both regions (forms may differ) and compares returned indices and reads.
/// Returns false (after recording a violation) on any disagreement.
pub fn push_both<E: Entry>(
    ctx: &mut Ctx,
    a: &mut Live<E>,
    b: &mut Live<E>,
    v: &E::V,
    form_a: usize,
    form_b: usize,
    kind: &str,
    what: &str,
) -> bool {
    let ia = a.push(ctx, v, form_a);
    let ib = b.push(ctx, v, form_b);
    let (Some(ia), Some(ib)) = (ia, ib) else { return false };
    if !E::idx_same(&ia, &ib) {
        ctx.fail(
            kind,
            format!(
                "{what}: pushing {} returned index {} on {} but {} on {}",
                v.render(),
                E::idx_render(&ia),
                a.tag,
                E::idx_render(&ib),
                b.tag
            ),
        );
        return false;
    }
    let ka = a.issued.len() - 1;
    let kb = b.issued.len() - 1;
    a.check_one(ctx, ka, Lvl::BASIC, kind) && b.check_one(ctx, kb, Lvl::BASIC, kind)
}

/// `r.reserve_regions(sources)`; a panic is a violation.
pub fn reserve_regions<E: Entry>(ctx: &mut Ctx, live: &mut Live<E>, sources: &[&E::R]) -> bool {
    let r = &mut live.r;
    let res = panics::catch(|| r.reserve_regions(sources.iter().copied()));
    ctx.log(format!("{}.reserve_regions({} sources)", live.tag, sources.len()));
    match res {
        Ok(()) => true,
        Err(p) => {
            ctx.fail_panic("reserve_regions", &p);
            false
        }
    }
}

pub fn reserve_items<E: Entry>(ctx: &mut Ctx, live: &mut Live<E>, vals: &[E::V]) -> bool {
    let r = &mut live.r;
    let which = ctx.rng.below(E::reserve_form_count().max(1));
    match panics::catch(|| E::reserve_items_form(r, vals, which)) {
        Ok(done) => {
            if done {
                ctx.log(format!("{}.reserve_items[form {which}]({} values)", live.tag, vals.len()));
            }
            true
        }
        Err(p) => {
            ctx.log(format!("{}.reserve_items({} values) PANICKED", live.tag, vals.len()));
            ctx.fail_panic("reserve_items", &p);
            false
        }
    }
}

/// `merge_regions(sources)`; a panic is a violation.
pub fn merged<E: Entry>(ctx: &mut Ctx, tag: &'static str, sources: &[&E::R]) -> Option<Live<E>> {
    let res = panics::catch(|| E::R::merge_regions(sources.iter().copied()));
    ctx.log(format!("{tag} = merge_regions({} sources)", sources.len()));
    match res {
        Ok(r) => Some(Live::from_region(tag, r)),
        Err(p) => {
            ctx.fail_panic("merge_regions", &p);
            None
        }
    }
}

pub fn three_values<E: Entry>(label: &str) -> [E::V; 3] {
    let mut rng = crate::rng::Rng::derive(7, &["letters", label, E::label()], 0);
    let dom = Dom::new(Kind::Tiny);
    let a = <E::V as Val>::gen(&mut rng, dom);
    let mut b = <E::V as Val>::gen(&mut rng, dom);
    for _ in 0..30 {
        if !b.peq(&a) {
            break;
        }
        b = <E::V as Val>::gen(&mut rng, dom);
    }
    // the third letter is the empty item where the value type has one (empty string, empty
    // slice, empty row), otherwise a hostile value
    let mut c = <E::V as Val>::gen(&mut rng, Dom::new(Kind::Hostile));
    let mut found_empty = false;
    for _ in 0..80 {
        let cand = <E::V as Val>::gen(&mut rng, dom);
        if cand.is_empty_container() && !cand.peq(&a) && !cand.peq(&b) {
            c = cand;
            found_empty = true;
            break;
        }
    }
    if !found_empty {
        for _ in 0..30 {
            if !c.peq(&a) && !c.peq(&b) {
                break;
            }
            c = <E::V as Val>::gen(&mut rng, Dom::new(Kind::Hostile));
        }
    }
    [a, b, c]
}

/// `a` and `t` hold the same values since their last reset. Merges a region from each and
/// pushes those values again into both merged regions in lock-step: returned indices and
/// reads must agree. Exposes residue only the next generation can see (stale statistics of a
/// coded region change the code it hands to `merge_regions`). Nothing to do when no value was
/// pushed since the reset (an untrained merged coded region accepts nothing).
pub fn next_generation<E: Entry>(ctx: &mut Ctx, a: &Live<E>, t: &Live<E>, kind: &str, what: &str) -> bool {
    if a.issued.is_empty() {
        return true;
    }
    let vals: Vec<E::V> = a.issued.iter().rev().take(12).map(|x| x.1.clone()).collect();
    let Some(mut ma) = merged::<E>(ctx, "merged(a)", &[&a.r]) else { return false };
    let Some(mut mt) = merged::<E>(ctx, "merged(twin)", &[&t.r]) else { return false };
    let nforms = Live::<E>::nforms();
    for v in &vals {
        let form = ctx.rng.below(nforms);
        if !push_both(ctx, &mut ma, &mut mt, v, form, form, kind, what) {
            return false;
        }
    }
    ctx.cover("next-generation");
    ma.check_all(ctx, Lvl::BASIC, kind) && mt.check_all(ctx, Lvl::BASIC, kind)
}
