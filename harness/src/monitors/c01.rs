//! C01 — round trip: `index(push(v))` describes exactly `v`, in every accessor.

use super::{entry_jobs, Plan, PropDef};
use crate::check::Lvl;
use crate::driver::{Ctx, Job, Tier};
use crate::entry::Entry;
use crate::live::{gen_pool, Live};
use crate::val::{Dom, Kind};

pub const DEF: PropDef = PropDef {
    id: "C01",
    jobs,
    required,
    rule: "one case = one history of 1..40 pushes into one catalogue entry (value domain tiny/hostile/long by history number; region either Default or merge_regions over a source trained on the history's values; input form drawn per push); immediately after each push the returned index is read and every accessor (len, is_empty, get(i), iter, size_hint, into_owned, recursively) is compared with the pushed value. Non-trivial = at least one push verified; distinct = distinct hash of (entry, rendered operation list).",
    assumptions: &[
        "the catalogue (registry.rs) and the value generators (val.rs) are finite samples of 'every composition' and 'every value'",
        "coded regions receive only data covered by the statistics of the region they were merged from (trained mode) or are in raw/default mode",
        "floats are compared by bit pattern, except that values equal under == (0.0/-0.0) are not told apart",
    ],
};

const KINDS: [Kind; 3] = [Kind::Tiny, Kind::Hostile, Kind::Long];

fn per_entry(tier: Tier) -> u64 {
    tier.pick(150, 1800, 2)
}

fn jobs(plan: &Plan) -> Vec<Job> {
    let mut v = entry_jobs(plan, "C01", "roundtrip", per_entry(plan.tier), |_| true);
    if plan.tier != Tier::Miri {
        // statistics-gathering regions have internal sizes of their own: many distinct values
        for (h, _) in MANY_DISTINCT.iter().enumerate() {
            v.push(super::standalone("codec-dict", "many-distinct", h as u64, many_distinct_bytes));
            v.push(super::standalone("string<codec-dict>", "many-distinct", h as u64, many_distinct_strings));
        }
    }
    v
}

const MANY_DISTINCT: [usize; 7] = [255, 257, 511, 512, 513, 1024, 1500];

fn many_distinct<E: Entry>(ctx: &mut Ctx, make: impl Fn(usize) -> E::V) {
    let d = MANY_DISTINCT[ctx.hist_no as usize];
    let mut live = Live::<E>::new("r");
    ctx.log(format!("{} distinct values, each pushed twice (round robin), into {}", d, E::label()));
    let mut aux = <E::R as Default>::default();
    for k in 0..2 * d + 5 {
        let v = make(k % d);
        let r = &mut live.r;
        match crate::panics::catch(|| E::push(r, &v, 0, &mut aux)) {
            Ok(idx) => live.issued.push((idx, v)),
            Err(p) => {
                ctx.log(format!("push #{k} PANICKED"));
                ctx.fail_panic("push", &p);
                break;
            }
        }
        let n = live.issued.len();
        if !live.check_one(ctx, n - 1, Lvl::BASIC, "roundtrip") {
            break;
        }
    }
    if !ctx.failed {
        live.check_all(ctx, Lvl::BASIC, "roundtrip");
    }
    ctx.count("pushes_verified", live.issued.len() as u64);
    ctx.nontrivial = true;
    ctx.end_history();
}

fn many_distinct_bytes(ctx: &mut Ctx) {
    many_distinct::<crate::catalogue::ECodecDict>(ctx, |i| format!("v{i:05}").into_bytes());
}

fn many_distinct_strings(ctx: &mut Ctx) {
    many_distinct::<crate::catalogue::EStringDict>(ctx, |i| format!("é{i:05}"));
}

fn required(plan: &Plan) -> Vec<String> {
    let mut v = Vec::new();
    for d in plan.reg {
        for f in &d.forms {
            v.push(format!("form:{}:{}", d.label, f));
        }
        for k in ["Tiny", "Hostile", "Long"] {
            v.push(format!("dom:{}:{}", d.label, k));
        }
        v.push(format!("mode:{}:default", d.label));
        v.push(format!("mode:{}:trained", d.label));
    }
    if plan.tier == Tier::Miri {
        v.clear();
    }
    v
}

pub fn run<E: Entry>(ctx: &mut Ctx) {
    let h = ctx.hist_no;
    let kind = KINDS[(h % 3) as usize];
    let trained = (h / 3) % 2 == 1;
    let max = match (ctx.tier, kind) {
        (Tier::Miri, _) => 6,
        (_, Kind::Tiny) => 24,
        (_, Kind::Hostile) => 40,
        (_, Kind::Long) => 10,
    };
    let n = ctx.rng.range(1, max);
    let pool = gen_pool::<E>(ctx, Dom::new(kind), n);
    let live = if trained { Live::<E>::trained("r", ctx, &pool) } else { Some(Live::<E>::new("r")) };
    let Some(mut live) = live else {
        ctx.nontrivial = true;
        ctx.end_history();
        return;
    };
    // in half of the histories the region that read items are taken from holds other items too
    // (other offsets, wider rows, more columns than the receiver ever saw)
    if (h / 6) % 2 == 1 {
        let other = gen_pool::<E>(ctx, Dom::new(Kind::Hostile), 5);
        live.prefill_aux(&other);
    }
    let nforms = Live::<E>::nforms();
    let names = E::form_names();
    let mut pushes = 0;
    // every form is used early in the history so that short histories cover them too
    let form0 = (h as usize) % nforms;
    for (k, v) in pool.iter().enumerate() {
        let form = if k < nforms { (form0 + k) % nforms } else { ctx.rng.below(nforms) };
        if live.push(ctx, v, form).is_none() {
            break;
        }
        pushes += 1;
        ctx.cover(&format!("form:{}:{}", E::label(), names[form]));
        let lvl = Lvl { oob: false, debug: false, consume_str: ctx.tier == Tier::Miri };
        if !live.check_one(ctx, k, lvl, "roundtrip") {
            break;
        }
    }
    ctx.count("pushes_verified", pushes);
    ctx.cover(&format!("dom:{}:{:?}", E::label(), kind));
    ctx.cover(&format!("mode:{}:{}", E::label(), if trained { "trained" } else { "default" }));
    ctx.nontrivial = pushes > 0;
    ctx.end_history();
}
