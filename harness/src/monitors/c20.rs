//! C20 — all accepted input forms of a value are interchangeable.

use super::c02::LiveStack;
use super::util::*;
use super::{entry_jobs, stack_jobs, Plan, PropDef};
use crate::check::Lvl;
use crate::driver::{Ctx, Job, Tier};
use crate::entry::{Entry, Idx, IdxC};
use crate::live::Live;
use crate::val::{Dom, Kind, Same, Val};

pub const DEF: PropDef = PropDef {
    id: "C20",
    jobs,
    required,
    rule: "one case = one push history on a catalogue entry in which every push uses a form drawn at random from all forms the entry lists (owned, &, &&, array, &array, slice, Vec, Vec of references, PushIter, read items taken from a second region in both representations, nested reference mixes), run in lock-step with a twin region (same starting state: Default or merge_regions over the same trained source) that is always fed the canonical by-reference form. After every push: equal returned indices, equal summed used bytes, and both read the pushed value; FlatStack::copy likewise. Non-trivial = at least one push in a non-canonical form; distinct = distinct hash of (entry, operation list).",
    assumptions: &["the form tables in harness/src/catalogue.rs list the forms that are exercised; a Push impl missing from them is not covered"],
};

fn jobs(plan: &Plan) -> Vec<Job> {
    let t = plan.tier;
    let mut v = entry_jobs(plan, "C20", "forms", t.pick(80, 2500, 1), |d| d.forms.len() > 1);
    v.extend(stack_jobs(plan, "C20", "stack-forms", t.pick(10, 80, 0), |d| d.forms.len() > 1));
    v
}

fn required(plan: &Plan) -> Vec<String> {
    if plan.tier == Tier::Miri {
        return vec![];
    }
    let mut v = Vec::new();
    for d in plan.reg.iter().filter(|d| d.forms.len() > 1) {
        for f in &d.forms {
            v.push(format!("form:{}:{}", d.label, f));
        }
    }
    v.push("next-generation:compared".into());
    v.push("read-item-source:holds-other-items".into());
    v
}

pub fn run<E: Entry>(ctx: &mut Ctx) {
    let h = ctx.hist_no;
    let kind = kind_for(h);
    let nforms = Live::<E>::nforms();
    let names = E::form_names();
    let n = ctx.rng.range(nforms.min(6), if ctx.tier == Tier::Miri { 6 } else { 30 });
    let pool: Vec<E::V> = <E::V as Val>::gen_run(&mut ctx.rng, Dom::new(kind), n + 2);
    let trained = (h / 3) % 2 == 1;
    let (a, t) = if trained { (Live::<E>::trained("a", ctx, &pool), Live::<E>::trained("canonical", ctx, &pool)) } else { (Some(Live::<E>::new("a")), Some(Live::<E>::new("canonical"))) };
    let (Some(mut a), Some(mut t)) = (a, t) else {
        ctx.end_history();
        return;
    };
    // the region that read items are taken from holds other, wider and longer items as well
    if (h / 6) % 2 == 1 {
        let other: Vec<E::V> = <E::V as Val>::gen_run(&mut ctx.rng, Dom::new(Kind::Long), 3);
        a.prefill_aux(&other);
        a.prefill_aux(&pool);
        ctx.cover("read-item-source:holds-other-items");
    }
    let mut last: Option<E::V> = None;
    for k in 0..n {
        let v = draw::<E>(ctx, &pool, last.as_ref());
        let form = if k < nforms { (h as usize + k) % nforms } else { ctx.rng.below(nforms) };
        if !push_both(ctx, &mut a, &mut t, &v, form, 0, "form-differs", &format!("form {} vs. canonical form {}", names[form], names[0])) {
            break;
        }
        ctx.cover(&format!("form:{}:{}", E::label(), names[form]));
        if form != 0 {
            ctx.nontrivial = true;
        }
        if let (Some(ha), Some(ht)) = (a.heap(), t.heap()) {
            if ha.used != ht.used {
                ctx.fail(
                    "form-stores-differently",
                    format!("after pushing {} as {} the region accounts {} used bytes, the twin fed {} accounts {}", v.render(), names[form], ha.used, names[0], ht.used),
                );
                break;
            }
        }
        if k % 4 == 3 && !a.check_all(ctx, Lvl::BASIC, "form-differs") {
            break;
        }
        last = Some(v);
    }
    // "a history that mixes forms behaves exactly like one that uses a single form": that
    // includes what the two regions hand on to the next generation (statistics of coded
    // regions, sizes). Merge a region from each and feed both the same items.
    if !ctx.failed && !a.issued.is_empty() {
        let absorbed: Vec<E::V> = a.issued.iter().map(|x| x.1.clone()).collect();
        let next_a = merged::<E>(ctx, "a2", &[&a.r]);
        let next_t = merged::<E>(ctx, "canonical2", &[&t.r]);
        if let (Some(mut a2), Some(mut t2)) = (next_a, next_t) {
            for k in 0..absorbed.len().min(12) {
                let v = &absorbed[(k * 5 + 1) % absorbed.len()];
                if !push_both(ctx, &mut a2, &mut t2, v, 0, 0, "form-changes-next-generation", "regions merged from a mixed-form history and from a canonical-form history") {
                    break;
                }
                if let (Some(ha), Some(ht)) = (a2.heap(), t2.heap()) {
                    if ha.used != ht.used {
                        ctx.fail(
                            "form-changes-next-generation",
                            format!("regions merged from a mixed-form and a canonical-form history account {} vs {} used bytes after the same pushes", ha.used, ht.used),
                        );
                        break;
                    }
                }
            }
            ctx.cover("next-generation:compared");
        }
    }
    ctx.end_history();
}

pub fn run_stack<E: Entry, S: IdxC<Idx<E>>>(ctx: &mut Ctx) {
    let nforms = E::form_names().len();
    let names = E::form_names();
    let n = ctx.rng.range(2, 24);
    let pool: Vec<E::V> = <E::V as Val>::gen_run(&mut ctx.rng, Dom::new(kind_for(ctx.hist_no / 3)), n);
    let mut a = LiveStack::<E, S>::new("a");
    let mut t = LiveStack::<E, S>::new("canonical");
    ctx.log(format!("a, canonical = FlatStack<{}, {}>::default()", E::label(), S::KIND));
    if (ctx.hist_no / 3) % 2 == 1 {
        // the region that read items are taken from holds other, wider items as well
        let other: Vec<E::V> = <E::V as Val>::gen_run(&mut ctx.rng, Dom::new(Kind::Long), 3);
        let aux = &mut a.aux;
        let _ = crate::panics::catch(|| {
            let mut dummy = E::R::default();
            for v in other.iter().chain(pool.iter()) {
                let _ = E::push(aux, v, 0, &mut dummy);
            }
        });
    }
    for k in 0..n {
        let v = pool[k].clone();
        let form = ctx.rng.below(nforms);
        if !a.copy(ctx, &v, form) || !t.copy(ctx, &v, 0) {
            break;
        }
        if form != 0 {
            ctx.nontrivial = true;
        }
        if a.fs.len() != t.fs.len() {
            ctx.fail("stack-form-len", "stacks fed different forms disagree on len".into());
            break;
        }
        if E::can_heap() {
            let (mut ua, mut ut) = (0usize, 0usize);
            a.fs.heap_size(|u, _| ua += u);
            t.fs.heap_size(|u, _| ut += u);
            if ua != ut {
                ctx.fail("stack-form-stores-differently", format!("after copying {} as {}: {} used bytes vs. {} for the canonical form", v.render(), names[form], ua, ut));
                break;
            }
        }
        if !a.check_all_get(ctx, Lvl::BASIC, "stack-form-differs") {
            break;
        }
    }
    ctx.end_history();
}
