//! C05 — index containers store arbitrary usize sequences faithfully and never panic.
//! C19 — index compression delivers the documented space bounds.
//!
//! Both share one bounded-exhaustive enumeration of push/clear sequences over an alphabet
//! chosen to reach every state transition, plus long structured random sequences.

use super::{stack_jobs, standalone, Plan, PropDef};
use crate::check::drain_checked;
use crate::driver::{Ctx, Job, Tier};
use crate::entry::{Entry, Idx, IdxC, Stack};
use crate::live::heap_of;
use crate::panics;
use crate::val::{Dom, Kind, Same, Val};
use flatcontainer::impls::index as fidx;
use flatcontainer::impls::index::{IndexList, IndexOptimized, Stride};
use flatcontainer::impls::storage as fsto;
use flatcontainer::Region;

pub const C05: PropDef = PropDef {
    id: "C05",
    jobs: jobs_c05,
    required: required_c05,
    rule: "one case = one push/clear sequence applied to Stride, IndexList, IndexOptimized or Vec<usize>. Exhaustive part: every sequence of length <= L (6 quick, 7 thorough) over the alphabet {0, 1, s, 2s, 3s, s-1, u32::MAX, u32::MAX+1, 2^63, usize::MAX, clear} for s in {0, 2, 2^31, 2^63} (depth-first, every prefix checked: len, is_empty, index(i) for all i, iteration with size hints; Stride against a u128 reference acceptor, state unchanged on rejection). Random part: long structured sequences (stride runs, saturation tails, breaks, spills, clears, extend, reserve, with_capacity, merge_regions). Non-trivial = the sequence reaches at least 2 stored elements; distinct = distinct (container, stride, sequence). The two build profiles must produce identical observation digests.",
    assumptions: &["usize is 64 bits wide", "Stride::index / iteration beyond len is outside the property (callers index below len)"],
};

pub const C19: PropDef = PropDef {
    id: "C19",
    jobs: jobs_c19,
    required: required_c19,
    rule: "one case = one push/clear sequence applied to IndexOptimized or IndexList, or one FlatStack<_, IndexOptimized> over a dense-index region fed a random history. Expected heap cost from the documented rule: the longest prefix matching 0, s, 2s, ... then repeats of the last element is free; the remainder costs 4 bytes per entry up to the first value above u32::MAX and 8 bytes per entry from there; summed used bytes must equal it, and summed capacity must be 0 whenever nothing ever spilled. FlatStack clause: heap totals (used and capacity) of the stack equal those of the bare region fed the same items. Same exhaustive alphabet and bounds as C05. Non-trivial = at least 2 stored elements; distinct = distinct (container, stride, sequence) / (entry, history).",
    assumptions: &["usize is 64 bits wide", "capacity retained across clear() is legitimate (C08) and not counted against 'no heap at all'"],
};

const STRIDES: [usize; 4] = [0, 2, 1 << 31, 1 << 63];
const KINDS: [&str; 4] = ["stride", "list", "optimized", "vec"];

fn alphabet(s: usize) -> Vec<Option<usize>> {
    let cands = [
        0usize,
        1,
        s,
        s.wrapping_mul(2),
        s.wrapping_mul(3),
        s.wrapping_sub(1),
        u32::MAX as usize,
        u32::MAX as usize + 1,
        1 << 63,
        usize::MAX,
    ];
    let mut out: Vec<Option<usize>> = Vec::new();
    for c in cands {
        if !out.contains(&Some(c)) {
            out.push(Some(c));
        }
    }
    out.push(None); // clear
    out
}

fn depth(tier: Tier) -> u64 {
    tier.pick(6, 7, 2)
}

fn exhaustive_jobs(f: fn(&mut Ctx)) -> Vec<Job> {
    let mut v = Vec::new();
    for (k, kind) in KINDS.iter().enumerate() {
        for (si, _) in STRIDES.iter().enumerate() {
            // one job per first letter
            for first in 0..11u64 {
                v.push(standalone(kind, "exhaustive", ((k as u64) << 16) | ((si as u64) << 8) | first, f));
            }
        }
    }
    v
}

fn jobs_c05(plan: &Plan) -> Vec<Job> {
    let mut v = exhaustive_jobs(run_exhaustive_c05);
    let n = plan.tier.pick(160, 4000, 2);
    for k in KINDS {
        for h in 0..n {
            v.push(standalone(k, "random", h, run_random_c05));
        }
    }
    v
}

fn jobs_c19(plan: &Plan) -> Vec<Job> {
    let mut v: Vec<Job> = exhaustive_jobs(run_exhaustive_c19).into_iter().filter(|j| j.entry == "list" || j.entry == "optimized").collect();
    let n = plan.tier.pick(160, 4000, 2);
    for k in ["list", "optimized"] {
        for h in 0..n {
            v.push(standalone(k, "random", h, run_random_c19));
        }
    }
    v.extend(stack_jobs(plan, "C19", "stack-share", plan.tier.pick(30, 600, 1), |d| d.flags.dense && d.flags.heap));
    v
}

fn required_c05(plan: &Plan) -> Vec<String> {
    if plan.tier == Tier::Miri {
        return vec![];
    }
    let mut v = vec![];
    for t in [
        "stride:Empty->Zero",
        "stride:Zero->Striding",
        "stride:Striding->Striding",
        "stride:Striding->Saturated",
        "stride:Saturated->Saturated",
        "stride:reject@Empty",
        "stride:reject@Striding",
        "stride:reject@Saturated",
        "list:small-after-chonk",
        "list:u64-switch",
        "optimized:stride->spill",
        "optimized:spill-then-pattern-value",
        "op:extend",
        "op:clear",
        "op:reserve",
        "op:merge_regions",
        "op:reserve_regions",
    ] {
        v.push(t.to_string());
    }
    for k in KINDS {
        v.push(format!("exhaustive-complete:{k}"));
    }
    v
}

fn required_c19(plan: &Plan) -> Vec<String> {
    if plan.tier == Tier::Miri {
        return vec![];
    }
    let mut v: Vec<String> = ["prefix:empty", "prefix:partial", "prefix:full", "cost:u64-switch", "stack-share:observed", "stack-share:n<40", "stack-share:n<600", "stack-share:n>=3000", "stack-share:merged-start", "cost:no-heap-at-all"]
        .iter()
        .map(|s| s.to_string())
        .collect();
    for k in ["list", "optimized"] {
        v.push(format!("exhaustive-complete:{k}"));
    }
    v
}

// ---------------------------------------------------------------- reference models

/// Reference acceptor for the documented stride pattern, in u128 arithmetic.
#[derive(Clone, Debug, Default)]
pub struct StrideRef {
    pub n: usize,
    pub stride: u128,
    pub steps: u128,
    pub reps: u128,
}

impl StrideRef {
    pub fn accepts(&self, x: usize) -> bool {
        let x = x as u128;
        if self.n == 0 {
            x == 0
        } else if self.n == 1 {
            true
        } else if self.reps == 0 {
            x == self.stride * self.steps || x == self.stride * (self.steps - 1)
        } else {
            x == self.stride * (self.steps - 1)
        }
    }
    pub fn push(&mut self, x: usize) {
        let x = x as u128;
        if self.n == 0 {
            self.steps = 1;
        } else if self.n == 1 {
            self.stride = x;
            self.steps = 2;
        } else if self.reps == 0 && x == self.stride * self.steps {
            self.steps += 1;
        } else {
            self.reps += 1;
        }
        self.n += 1;
    }
    pub fn state_name(&self) -> &'static str {
        match (self.n, self.reps) {
            (0, _) => "Empty",
            (1, _) => "Zero",
            (_, 0) => "Striding",
            _ => "Saturated",
        }
    }
}

/// Documented cost of a sequence stored in IndexOptimized (`with_stride`) or IndexList.
#[derive(Clone, Debug, Default)]
pub struct CostRef {
    stride: StrideRef,
    spilled: bool,
    wide: bool,
    pub bytes: usize,
    pub ever_spilled: bool,
    pub free_prefix: usize,
    pub stored: usize,
}

impl CostRef {
    pub fn push(&mut self, x: usize, with_stride: bool) {
        self.stored += 1;
        if with_stride && !self.spilled && self.stride.accepts(x) {
            self.stride.push(x);
            self.free_prefix += 1;
            return;
        }
        self.spilled = true;
        self.ever_spilled = true;
        if x > u32::MAX as usize {
            self.wide = true;
        }
        self.bytes += if self.wide { 8 } else { 4 };
    }
    pub fn clear(&mut self) {
        let ever = self.ever_spilled;
        *self = CostRef::default();
        self.ever_spilled = ever;
    }
}

// ---------------------------------------------------------------- a uniform view of the containers

pub trait Cont: Clone + Default {
    const KIND: &'static str;
    /// returns whether the value was stored
    fn push_v(&mut self, x: usize) -> bool;
    fn clear_v(&mut self);
    fn len_v(&self) -> usize;
    fn is_empty_v(&self) -> bool;
    fn index_v(&self, i: usize) -> usize;
    fn iter_v(&self) -> Box<dyn Iterator<Item = usize> + '_>;
    fn heap_v(&self) -> (usize, usize);
    fn state(&self) -> String;
}

impl Cont for Stride {
    const KIND: &'static str = "stride";
    fn push_v(&mut self, x: usize) -> bool {
        self.push(x)
    }
    fn clear_v(&mut self) {
        self.clear()
    }
    fn len_v(&self) -> usize {
        self.len()
    }
    fn is_empty_v(&self) -> bool {
        self.is_empty()
    }
    fn index_v(&self, i: usize) -> usize {
        self.index(i)
    }
    fn iter_v(&self) -> Box<dyn Iterator<Item = usize> + '_> {
        Box::new(self.iter())
    }
    fn heap_v(&self) -> (usize, usize) {
        (0, 0)
    }
    fn state(&self) -> String {
        format!("{:?}", self)
    }
}

macro_rules! cont_for_index_container {
    ($t:ty, $kind:expr) => {
        impl Cont for $t {
            const KIND: &'static str = $kind;
            fn push_v(&mut self, x: usize) -> bool {
                fidx::IndexContainer::push(self, x);
                true
            }
            fn clear_v(&mut self) {
                fsto::Storage::<usize>::clear(self)
            }
            fn len_v(&self) -> usize {
                fsto::Storage::<usize>::len(self)
            }
            fn is_empty_v(&self) -> bool {
                fsto::Storage::<usize>::is_empty(self)
            }
            fn index_v(&self, i: usize) -> usize {
                fidx::IndexContainer::index(self, i)
            }
            fn iter_v(&self) -> Box<dyn Iterator<Item = usize> + '_> {
                Box::new(fidx::IndexContainer::iter(self))
            }
            fn heap_v(&self) -> (usize, usize) {
                let mut u = 0;
                let mut c = 0;
                fsto::Storage::<usize>::heap_size(self, |a, b| {
                    u += a;
                    c += b;
                });
                (u, c)
            }
            fn state(&self) -> String {
                format!("{:?}", self)
            }
        }
    };
}
cont_for_index_container!(IndexList<Vec<u32>, Vec<u64>>, "list");
cont_for_index_container!(IndexOptimized, "optimized");
cont_for_index_container!(Vec<usize>, "vec");

fn letter_name(l: Option<usize>) -> String {
    match l {
        None => "clear".into(),
        Some(x) => format!("push {x}"),
    }
}

/// Checks the full observable state of `c` against `model`. `shallow` restricts the
/// per-index sweep to the last few positions (used deep in the enumeration, where every
/// shorter prefix has been checked already by an ancestor node).
fn check_state<C: Cont>(c: &C, model: &[usize]) -> Result<(), String> {
    if c.len_v() != model.len() {
        return Err(format!("len() = {}, expected {}", c.len_v(), model.len()));
    }
    if c.is_empty_v() != model.is_empty() {
        return Err(format!("is_empty() = {}, expected {}", c.is_empty_v(), model.is_empty()));
    }
    for (i, want) in model.iter().enumerate() {
        let got = c.index_v(i);
        if got != *want {
            return Err(format!("index({i}) = {got}, expected {want}"));
        }
    }
    let got = drain_checked(c.iter_v(), model.len(), "iter")?;
    if got != model {
        return Err(format!("iter() yields {:?}, expected {:?}", &got[..got.len().min(12)], &model[..model.len().min(12)]));
    }
    Ok(())
}

struct Dfs<'a, 'b> {
    ctx: &'a mut Ctx<'b>,
    alpha: Vec<Option<usize>>,
    max: usize,
    cost: bool,
    nodes: u64,
    path: Vec<usize>,
}

fn transition_cover(ctx: &mut Ctx, before: &StrideRef, after: &StrideRef, accepted: bool) {
    if accepted {
        ctx.cover(&format!("stride:{}->{}", before.state_name(), after.state_name()));
    } else {
        ctx.cover(&format!("stride:reject@{}", before.state_name()));
    }
}

impl<'a, 'b> Dfs<'a, 'b> {
    fn render_path(&self) -> Vec<String> {
        self.path.iter().map(|&l| letter_name(self.alpha[l])).collect()
    }

    /// Applies letter `l` to a copy of (c, model, sref, cref) and recurses.
    fn step<C: Cont>(&mut self, c: &C, model: &Vec<usize>, sref: &StrideRef, cref: &CostRef, l: usize) {
        let mut c2 = c.clone();
        let mut model2 = model.clone();
        let mut sref2 = sref.clone();
        let mut cref2 = cref.clone();
        self.path.push(l);
        self.nodes += 1;
        let is_stride = C::KIND == "stride";
        let letter = self.alpha[l];
        let res: Result<Result<(), String>, panics::Panic> = panics::catch(|| {
            match letter {
                None => {
                    c2.clear_v();
                    model2.clear();
                    sref2 = StrideRef::default();
                    cref2.clear();
                }
                Some(x) => {
                    let before = c2.clone();
                    let stored = c2.push_v(x);
                    if is_stride {
                        let want = sref2.accepts(x);
                        if stored != want {
                            return Err(format!(
                                "Stride::push({x}) in state {} returned {stored}, the documented pattern says {want}",
                                before.state()
                            ));
                        }
                        if !stored && c2.state() != before.state() {
                            return Err(format!("rejected push({x}) changed the state from {} to {}", before.state(), c2.state()));
                        }
                    }
                    if stored {
                        model2.push(x);
                        sref2.push(x);
                    }
                    cref2.push(x, C::KIND == "optimized");
                }
            }
            check_state(&c2, &model2)
        });
        let mut dead = false;
        match res {
            Ok(Ok(())) => {}
            Ok(Err(e)) => {
                if !self.cost {
                    let hist = self.render_path();
                    for h in &hist {
                        self.ctx.log(format!("{}.{h}", C::KIND));
                    }
                    self.ctx.fail("content", format!("{} after [{}]: {e}", C::KIND, hist.join(", ")));
                    self.ctx.log.clear();
                }
                dead = true;
            }
            Err(p) => {
                if !self.cost {
                    let hist = self.render_path();
                    for h in &hist {
                        self.ctx.log(format!("{}.{h}", C::KIND));
                    }
                    self.ctx.fail(&format!("panic:{}", p.file()), format!("{} panicked during [{}]: {}", C::KIND, hist.join(", "), p.short()));
                    self.ctx.log.clear();
                }
                dead = true;
            }
        }
        if !dead {
            if self.cost {
                let (used, cap) = c2.heap_v();
                if used != cref2.bytes || (!cref2.ever_spilled && cap != 0) {
                    let hist = self.render_path();
                    for h in &hist {
                        self.ctx.log(format!("{}.{h}", C::KIND));
                    }
                    self.ctx.fail(
                        "cost",
                        format!(
                            "{} after [{}]: heap used {used} / capacity {cap}, documented cost {} bytes{}",
                            C::KIND,
                            hist.join(", "),
                            cref2.bytes,
                            if cref2.ever_spilled { "" } else { " and no heap at all" }
                        ),
                    );
                    self.ctx.log.clear();
                    dead = true;
                }
                if cref2.stored >= 2 {
                    if cref2.bytes == 0 && !cref2.ever_spilled {
                        self.ctx.cover("cost:no-heap-at-all");
                    }
                    if C::KIND == "optimized" {
                        if cref2.free_prefix == 0 {
                            self.ctx.cover("prefix:empty");
                        } else if cref2.free_prefix < cref2.stored {
                            self.ctx.cover("prefix:partial");
                        } else {
                            self.ctx.cover("prefix:full");
                        }
                    }
                    if cref2.wide && cref2.bytes > 8 {
                        self.ctx.cover("cost:u64-switch");
                    }
                }
            } else {
                // coverage accounting
                if let Some(x) = letter {
                    if is_stride {
                        transition_cover(self.ctx, sref, &sref2, model2.len() > model.len());
                    }
                    if C::KIND == "list" && model.iter().any(|&m| m > u32::MAX as usize) {
                        if x <= u32::MAX as usize {
                            self.ctx.cover("list:small-after-chonk");
                        }
                    }
                    if C::KIND == "list" && x > u32::MAX as usize && model.iter().any(|&m| m <= u32::MAX as usize) {
                        self.ctx.cover("list:u64-switch");
                    }
                    if C::KIND == "optimized" {
                        let spilled_before = c.heap_v().0 > 0;
                        let spilled_after = c2.heap_v().0 > 0;
                        if !spilled_before && spilled_after && model.len() >= 1 {
                            self.ctx.cover("optimized:stride->spill");
                        }
                        if spilled_before && sref.accepts(x) {
                            self.ctx.cover("optimized:spill-then-pattern-value");
                        }
                    }
                } else {
                    self.ctx.cover("op:clear");
                }
                // digest: what was observed at this node (identical across build profiles)
                let mut obs = Vec::with_capacity(8 + self.path.len());
                obs.extend(self.path.iter().map(|&p| p as u8));
                obs.push(0xff);
                obs.extend((model2.len() as u32).to_le_bytes());
                self.ctx.rep.digest ^= crate::rng::mix(crate::rng::hash_bytes(crate::rng::hash_str(C::KIND) ^ (sref2.stride as u64), &obs));
            }
            // one case per visited node
            self.ctx.rep.evaluations += 1;
            if model2.len() >= 2 || cref2.stored >= 2 {
                // every node of the enumeration is a distinct (container, stride, sequence)
                self.ctx.rep.nontrivial_counted += 1;
            }
        }
        if !dead && self.path.len() < self.max {
            for l2 in 0..self.alpha.len() {
                self.step(&c2, &model2, &sref2, &cref2, l2);
            }
        }
        self.path.pop();
    }
}

fn run_exhaustive<C: Cont>(ctx: &mut Ctx, cost: bool) {
    let code = ctx.hist_no;
    let si = ((code >> 8) & 0xff) as usize;
    let first = (code & 0xff) as usize;
    let s = STRIDES[si];
    let alpha = alphabet(s);
    if first >= alpha.len() {
        return;
    }
    let max = depth(ctx.tier) as usize;
    let mut dfs = Dfs { ctx, alpha, max, cost, nodes: 0, path: Vec::new() };
    let c = C::default();
    dfs.step(&c, &Vec::new(), &StrideRef::default(), &CostRef::default(), first);
    let nodes = dfs.nodes;
    let sample = dfs.render_path();
    let _ = sample;
    ctx.count("exhaustive_nodes", nodes);
    ctx.count(&format!("exhaustive_nodes:{}", C::KIND), nodes);
    if ctx.rep.samples.len() < 2 {
        let a: Vec<String> = alphabet(s).iter().map(|l| letter_name(*l)).collect();
        ctx.rep.samples.push(serde_json::json!({"container": C::KIND, "stride": s.to_string(), "first_letter": a[first], "alphabet": a, "depth": max, "nodes_below_first_letter": nodes}));
    }
    ctx.cover(&format!("exhaustive-complete:{}", C::KIND));
}

fn kind_of(ctx: &Ctx) -> usize {
    ((ctx.hist_no >> 16) & 0xff) as usize
}

fn run_exhaustive_c05(ctx: &mut Ctx) {
    match ctx.entry.as_str() {
        "stride" => run_exhaustive::<Stride>(ctx, false),
        "list" => run_exhaustive::<IndexList<Vec<u32>, Vec<u64>>>(ctx, false),
        "optimized" => run_exhaustive::<IndexOptimized>(ctx, false),
        _ => run_exhaustive::<Vec<usize>>(ctx, false),
    }
}

fn run_exhaustive_c19(ctx: &mut Ctx) {
    match ctx.entry.as_str() {
        "list" => run_exhaustive::<IndexList<Vec<u32>, Vec<u64>>>(ctx, true),
        _ => run_exhaustive::<IndexOptimized>(ctx, true),
    }
}

// ---------------------------------------------------------------- random long sequences

fn structured_sequence(ctx: &mut Ctx, n: usize) -> Vec<Option<usize>> {
    // segments of stride runs, saturation tails, noise, big values and clears
    let mut out: Vec<Option<usize>> = Vec::with_capacity(n);
    while out.len() < n {
        let seg = ctx.rng.range(1, (n / 3).max(2));
        match ctx.rng.below(9) {
            0 => {
                if ctx.rng.chance(1, 3) {
                    out.push(None);
                }
            }
            1 | 2 | 3 => {
                let stride = *ctx.rng.pick(&[0usize, 1, 2, 3, 8, 1 << 20, 1 << 31, (1 << 32) + 1, 1 << 62, 1 << 63]);
                for k in 0..seg {
                    out.push(Some(stride.wrapping_mul(k)));
                }
                if ctx.rng.chance(1, 2) {
                    let last = stride.wrapping_mul(seg - 1);
                    for _ in 0..ctx.rng.range(1, seg) {
                        out.push(Some(last));
                    }
                }
            }
            4 => {
                for _ in 0..seg {
                    out.push(Some(ctx.rng.below(1000)));
                }
            }
            5 => {
                for _ in 0..seg.min(40) {
                    out.push(Some(<usize as Val>::gen(&mut ctx.rng, Dom::new(Kind::Hostile))));
                }
            }
            6 => {
                let base = ctx.rng.next() as usize;
                for k in 0..seg {
                    out.push(Some(base.wrapping_add(k)));
                }
            }
            7 => {
                for _ in 0..seg {
                    out.push(Some(ctx.rng.next() as u32 as usize));
                }
            }
            _ => out.push(Some(*ctx.rng.pick(&crate::val::USIZE_HOSTILE))),
        }
    }
    out.truncate(n);
    out
}

fn run_random<C: Cont + fsto::Storage<usize>>(ctx: &mut Ctx, cost: bool)
where
    C: fidx::IndexContainer<usize>,
{
    let h = ctx.hist_no;
    let n = match h % 4 {
        0 => ctx.rng.range(2, 60),
        1 => ctx.rng.range(60, 2000),
        2 => ctx.rng.range(2000, 20_000),
        _ => ctx.tier.pick(60_000, 400_000, 50) as usize,
    };
    let n = if ctx.tier == Tier::Miri { n.min(40) } else { n };
    let seq = structured_sequence(ctx, n);
    let mut model: Vec<usize> = Vec::new();
    let mut cref = CostRef::default();
    let with_stride = C::KIND == "optimized";
    let start_mode = ctx.rng.below(3);
    let mut c: C = match start_mode {
        0 => C::default(),
        1 => {
            let cap = *ctx.rng.pick(&[0usize, 1, 100, 5000]);
            ctx.log(format!("c = {}::with_capacity({cap})", C::KIND));
            <C as fsto::Storage<usize>>::with_capacity(cap)
        }
        _ => {
            let mut a = C::default();
            let mut b = C::default();
            for k in 0..ctx.rng.below(50) {
                fidx::IndexContainer::push(&mut a, k * 3);
                fidx::IndexContainer::push(&mut b, k.wrapping_mul(1 << 40));
            }
            ctx.log(format!("c = {}::merge_regions([a, b])", C::KIND));
            ctx.cover("op:merge_regions");
            <C as fsto::Storage<usize>>::merge_regions([&a, &b].into_iter())
        }
    };
    // pre-sized containers legitimately own capacity from the start
    let presized = start_mode != 0;
    let mut i = 0;
    let mut ok = true;
    let mut digest: u64 = 0;
    while i < seq.len() && ok {
        let r: Result<(), panics::Panic> = match seq[i] {
            None => {
                ctx.log("clear".into());
                ctx.cover("op:clear");
                model.clear();
                cref.clear();
                let r = panics::catch(|| c.clear_v());
                i += 1;
                r
            }
            Some(x) => {
                if ctx.rng.chance(1, 12) {
                    // a run via extend with an exact-size iterator
                    let mut j = i;
                    let mut run = Vec::new();
                    while j < seq.len() && run.len() < 64 {
                        match seq[j] {
                            Some(y) => run.push(y),
                            None => break,
                        }
                        j += 1;
                    }
                    ctx.log(format!("extend({} values starting {})", run.len(), run[0]));
                    ctx.cover("op:extend");
                    for &y in &run {
                        model.push(y);
                        cref.push(y, with_stride);
                    }
                    i = j;
                    panics::catch(|| fidx::IndexContainer::extend(&mut c, run.iter().copied()))
                } else {
                    if model.len() < 40 {
                        ctx.log(format!("push({x})"));
                    }
                    model.push(x);
                    cref.push(x, with_stride);
                    i += 1;
                    let r = panics::catch(|| {
                        fidx::IndexContainer::push(&mut c, x);
                    });
                    if r.is_ok() && ctx.rng.chance(1, 40) {
                        let add = *ctx.rng.pick(&[0usize, 1, 17, 4096]);
                        ctx.log(format!("reserve({add})"));
                        ctx.cover("op:reserve");
                        panics::catch(|| fsto::Storage::<usize>::reserve(&mut c, add))
                    } else if r.is_ok() && !cost && ctx.rng.chance(1, 60) {
                        // reserve_regions over two other containers (semantically invisible)
                        let mut o1 = C::default();
                        let mut o2 = C::default();
                        for k in 0..17usize {
                            fidx::IndexContainer::push(&mut o1, k * 2);
                            fidx::IndexContainer::push(&mut o2, k << 35);
                        }
                        ctx.log("reserve_regions([o1, o2])".into());
                        ctx.cover("op:reserve_regions");
                        panics::catch(|| fsto::Storage::<usize>::reserve_regions(&mut c, [&o1, &o2].into_iter()))
                    } else {
                        r
                    }
                }
            }
        };
        if let Err(p) = r {
            if !cost {
                ctx.fail(&format!("panic:{}", p.file()), format!("{} panicked after {} stored values: {}", C::KIND, model.len(), p.short()));
            }
            ok = false;
            break;
        }
        // cheap checks every step, full sweep at checkpoints
        let full = i % 997 == 0 || i >= seq.len() || model.len() < 64;
        let res = panics::catch(|| {
            if c.len_v() != model.len() {
                return Err(format!("len() = {}, expected {}", c.len_v(), model.len()));
            }
            if c.is_empty_v() != model.is_empty() {
                return Err("is_empty() disagrees with the pushed sequence".to_string());
            }
            if full {
                check_state(&c, &model)?;
            } else if !model.is_empty() {
                for _ in 0..4 {
                    let k = (crate::rng::mix(i as u64 ^ digest) % model.len() as u64) as usize;
                    digest = crate::rng::mix(digest ^ k as u64);
                    let got = c.index_v(k);
                    if got != model[k] {
                        return Err(format!("index({k}) = {got}, expected {}", model[k]));
                    }
                }
                let last = model.len() - 1;
                if c.index_v(last) != model[last] {
                    return Err(format!("index({last}) = {}, expected {}", c.index_v(last), model[last]));
                }
            }
            Ok(())
        });
        match res {
            Ok(Ok(())) => {}
            Ok(Err(e)) => {
                if !cost {
                    ctx.fail("content", format!("{} after {} operations ({} stored): {e}", C::KIND, i, model.len()));
                }
                ok = false;
            }
            Err(p) => {
                if !cost {
                    ctx.fail(&format!("panic:{}", p.file()), format!("{} panicked while being read after {} operations: {}", C::KIND, i, p.short()));
                }
                ok = false;
            }
        }
        if ok && cost && C::KIND != "vec" {
            let (used, cap) = c.heap_v();
            // (a stride-compressing container owns no heap before something spills, however it
            // was constructed: its with_capacity / merge_regions have nothing to size)
            if used != cref.bytes || (!cref.ever_spilled && (!presized || with_stride) && cap != 0) {
                ctx.fail(
                    "cost",
                    format!(
                        "{} after {} operations ({} stored, stride prefix {}): heap used {used} / capacity {cap}, documented cost {} bytes",
                        C::KIND,
                        i,
                        model.len(),
                        cref.free_prefix,
                        cref.bytes
                    ),
                );
                ok = false;
            }
            if cref.stored >= 2 {
                if cref.bytes == 0 && !cref.ever_spilled && !presized {
                    ctx.cover("cost:no-heap-at-all");
                }
                if with_stride {
                    ctx.cover(if cref.free_prefix == 0 {
                        "prefix:empty"
                    } else if cref.free_prefix < cref.stored {
                        "prefix:partial"
                    } else {
                        "prefix:full"
                    });
                }
                if cref.wide && cref.bytes > 8 {
                    ctx.cover("cost:u64-switch");
                }
            }
        }
    }
    if !cost {
        ctx.digest(&(model.len() as u64).to_le_bytes());
    }
    ctx.count("random_values_stored", model.len() as u64);
    ctx.nontrivial = model.len() >= 2 || i >= 2;
    ctx.log(format!("({} operations, {} values stored at the end)", i, model.len()));
    ctx.end_history();
}

fn run_random_c05(ctx: &mut Ctx) {
    match ctx.entry.as_str() {
        "stride" => run_random_stride(ctx),
        "list" => run_random::<IndexList<Vec<u32>, Vec<u64>>>(ctx, false),
        "optimized" => run_random::<IndexOptimized>(ctx, false),
        _ => run_random::<Vec<usize>>(ctx, false),
    }
}

fn run_random_c19(ctx: &mut Ctx) {
    match ctx.entry.as_str() {
        "list" => run_random::<IndexList<Vec<u32>, Vec<u64>>>(ctx, true),
        _ => run_random::<IndexOptimized>(ctx, true),
    }
}

/// Stride is not an IndexContainer: drive push/clear/iter directly against the acceptor.
fn run_random_stride(ctx: &mut Ctx) {
    let n = ctx.rng.range(2, if ctx.tier == Tier::Miri { 30 } else { 3000 });
    let seq = structured_sequence(ctx, n);
    let mut s = Stride::default();
    let mut sref = StrideRef::default();
    let mut model: Vec<usize> = Vec::new();
    for (i, l) in seq.iter().enumerate() {
        let res = panics::catch(|| match l {
            None => {
                s.clear();
                model.clear();
                sref = StrideRef::default();
                Ok(())
            }
            Some(x) => {
                let before = s;
                let got = s.push(*x);
                let want = sref.accepts(*x);
                if got != want {
                    return Err(format!("Stride::push({x}) in state {:?} returned {got}, the documented pattern says {want}", before));
                }
                if got {
                    sref.push(*x);
                    model.push(*x);
                } else if s != before {
                    return Err(format!("rejected push({x}) changed the state from {:?} to {:?}", before, s));
                }
                Ok(())
            }
        });
        if model.len() < 30 {
            ctx.log(letter_name(*l));
        }
        let res = match res {
            Ok(Ok(())) => panics::catch(|| {
                if i % 64 == 0 || model.len() < 64 {
                    check_state(&s, &model)
                } else {
                    if s.len() != model.len() {
                        return Err("len".to_string());
                    }
                    Ok(())
                }
            }),
            other => other,
        };
        match res {
            Ok(Ok(())) => {}
            Ok(Err(e)) => {
                ctx.fail("content", format!("stride after {} operations: {e}", i + 1));
                break;
            }
            Err(p) => {
                ctx.fail(&format!("panic:{}", p.file()), format!("stride panicked at operation {}: {}", i + 1, p.short()));
                break;
            }
        }
    }
    ctx.digest(&(model.len() as u64).to_le_bytes());
    ctx.nontrivial = model.len() >= 2;
    ctx.end_history();
}

// ---------------------------------------------------------------- C19: FlatStack spends nothing on dense indices

fn continue_check<R: Region, S: fidx::IndexContainer<R::Index>>(r: &R, fs: &flatcontainer::FlatStack<R, S>, k: usize) -> Result<(), String> {
    let a = heap_of(r);
    let mut used = 0;
    let mut cap = 0;
    fs.heap_size(|u, c| {
        used += u;
        cap += c;
    });
    if used != a.used || cap != a.cap {
        return Err(format!(
            "after {} items (the last one through extend) the FlatStack reports used {used} / capacity {cap}, the bare region used {} / capacity {}",
            k + 1,
            a.used,
            a.cap
        ));
    }
    Ok(())
}

pub fn run_stack_share<E: Entry, S: IdxC<Idx<E>>>(ctx: &mut Ctx) {
    if !S::COMPRESSING {
        // the clause is about the optimised index container only
        ctx.end_history();
        return;
    }
    // (the index container is selected by hist_no % 3, so the size class must not be)
    let n = match (ctx.hist_no / 3) % 3 {
        0 => ctx.rng.range(1, 40),
        1 => ctx.rng.range(40, 600),
        _ => ctx.tier.pick(3000, 100_000, 10) as usize,
    };
    ctx.cover(["stack-share:n<40", "stack-share:n<600", "stack-share:n>=3000"][((ctx.hist_no / 3) % 3) as usize]);
    let kind = if n > 600 { Kind::Tiny } else { Kind::Hostile };
    let pool: Vec<E::V> = <E::V as Val>::gen_run(&mut ctx.rng, Dom::new(kind), n.min(300));
    let mut aux = E::R::default();
    let nforms = E::form_names().len();
    // every other group of histories starts from merge_regions / merge_capacity over two
    // populated sources (the stack's sources hold what the region's sources hold): sizing a
    // stack from other stacks must not make its indices cost anything either
    let merged_start = !E::coded() && (ctx.hist_no / 9) % 2 == 1;
    let (mut r, mut fs) = if merged_start {
        let built = panics::catch(|| {
            let (mut r1, mut r2) = (E::R::default(), E::R::default());
            let (mut s1, mut s2) = (Stack::<E, S>::default(), Stack::<E, S>::default());
            let mut aux = E::R::default();
            for (k, v) in pool.iter().take(24).enumerate() {
                if k % 3 == 0 {
                    let _ = E::push(&mut r1, v, 0, &mut aux);
                    E::fs_copy(&mut s1, v, 0, &mut aux);
                } else {
                    let _ = E::push(&mut r2, v, 0, &mut aux);
                    E::fs_copy(&mut s2, v, 0, &mut aux);
                }
            }
            (E::R::merge_regions([&r1, &r2].into_iter()), Stack::<E, S>::merge_capacity([&s1, &s2].into_iter()))
        });
        match built {
            Ok(x) => {
                ctx.log(format!("r = {}::merge_regions([r1, r2]); fs = FlatStack<_, {}>::merge_capacity([s1, s2]) (s_i holds what r_i holds)", E::label(), S::KIND));
                ctx.cover("stack-share:merged-start");
                x
            }
            Err(p) => {
                ctx.fail_panic("stack-share", &p);
                ctx.end_history();
                return;
            }
        }
    } else {
        ctx.log(format!("r = {}::default(); fs = FlatStack<_, {}>::default()", E::label(), S::KIND));
        (E::R::default(), Stack::<E, S>::default())
    };
    let res = panics::catch(|| {
        for k in 0..n {
            let v = &pool[k % pool.len()];
            let form = (k * 7) % nforms;
            let _ = E::push(&mut r, v, form, &mut aux);
            if k % 48 == 47 {
                aux.clear();
            }
            // reservations and batch-wise extension must not cost the stack anything either
            match k % 23 {
                5 => fs.reserve(1 + k % 7),
                11 => {
                    E::fs_extend(&mut fs, std::slice::from_ref(v));
                    continue_check(&r, &fs, k)?;
                    continue;
                }
                _ => {}
            }
            E::fs_copy(&mut fs, v, form, &mut aux);
            if k < 50 || k % 101 == 0 || k + 1 == n {
                let a = heap_of(&r);
                let mut used = 0;
                let mut cap = 0;
                fs.heap_size(|u, c| {
                    used += u;
                    cap += c;
                });
                if used != a.used || cap != a.cap {
                    return Err(format!(
                        "after {} items the FlatStack reports used {used} / capacity {cap}, the bare region used {} / capacity {}: the stack's own indices cost {} bytes",
                        k + 1,
                        a.used,
                        a.cap,
                        used as i64 - a.used as i64
                    ));
                }
            }
        }
        Ok(())
    });
    ctx.log(format!("{n} items copied into both (values from a pool of {})", pool.len()));
    match res {
        Ok(Ok(())) => {}
        Ok(Err(e)) => ctx.fail("stack-share", e),
        Err(p) => ctx.fail_panic("stack-share", &p),
    }
    ctx.cover("stack-share:observed");
    ctx.count("stack_share_items", n as u64);
    ctx.nontrivial = n >= 2;
    ctx.end_history();
}
