//! C17 — allocation discipline: none after pre-sizing, logarithmic without.

use super::c02::LiveStack;
use super::util::*;
use super::{entry_jobs, stack_jobs, standalone, Plan, PropDef};
use crate::alloc;
use crate::driver::{Ctx, Job, Tier};
use crate::entry::{Entry, Idx, IdxC, Stack};
use crate::live::{heap_pairs, Live};
use crate::panics;
use crate::val::{Dom, Kind, Same, Val};
use flatcontainer::Region;

pub const DEF: PropDef = PropDef {
    id: "C17",
    jobs,
    required,
    rule: "scenario P (pre-sized): for one vector-backed structural entry (owned slices, strings, slices of regions 1-3 deep, options, results, tuples, Vec as region) and one way of pre-sizing - reserve_items(items), reserve_regions(sources), merge_regions(sources), FlatStack::merge_capacity(stacks), from empty and from populated regions - snapshot every capacity reported by heap_size, then push exactly the announced items (by reference, or by value with the clones made beforehand) while a counting global allocator (thread-local counters) watches: every capacity pair must stay constant and, for plain-data payloads, the allocator must not be called at all (alloc + realloc == 0). Scenario L (no pre-sizing): push n = 2^6 .. 2^14 plain-data items by reference into every non-coded entry; allocator calls must stay below S*(log2(n)+12), S being the number of storages heap_size reports, and doubling n may add at most 3*S+4 calls. Batches: empty items, many small, few large, skewed Ok/Err and Some/None mixes, nested slices. Thorough tier: one P and one L scenario re-run under valgrind memcheck, whose own allocation count is recorded next to the counter's. Non-trivial = at least 2 items pushed in the measured window; distinct = distinct hash of (entry, scenario, batch).",
    assumptions: &[
        "allocations made by the harness itself are kept out of the measured window (no logging or cloning between the counter snapshots)",
        "entries whose elements own heap memory themselves (owned<String>, vec<String>) are not 'plain data': capacities are checked, allocator silence is not",
    ],
};

fn plain(d: &crate::registry::Dyn) -> bool {
    !matches!(d.label, "owned<String>" | "vec<String>")
}

const SIZES: [usize; 9] = [64, 128, 256, 512, 1024, 2048, 4096, 8192, 16384];

fn jobs(plan: &Plan) -> Vec<Job> {
    let t = plan.tier;
    if plan.only_what.as_deref().map_or(false, |w| w.starts_with("alloc-probe")) {
        return vec![
            standalone("alloc-probe", "alloc-probe-presized", 0, alloc_probe),
            standalone("alloc-probe", "alloc-probe-growth", 0, alloc_probe),
        ];
    }
    let mut v = entry_jobs(plan, "C17", "presized", t.pick(120, 4000, 1), |d| d.flags.structural);
    v.extend(stack_jobs(plan, "C17", "stack-presized", t.pick(30, 600, 0), |d| d.flags.structural));
    v.extend(entry_jobs(plan, "C17", "growth", t.pick(2, 12, 0), |d| !d.flags.coded && plain(d) && d.flags.heap));
    for h in 0..t.pick(96, 960, 0) {
        v.push(standalone("fixed-width-forms", "presized-arrays", h, fixed_width));
    }
    v
}

fn required(plan: &Plan) -> Vec<String> {
    if plan.tier == Tier::Miri || plan.only_what.is_some() {
        return vec![];
    }
    let mut v = Vec::new();
    for d in plan.reg.iter().filter(|d| d.flags.structural) {
        if d.flags.reserve_items {
            v.push(format!("presized:reserve_items:{}", d.label));
            for w in 0..d.flags.reserve_forms {
                v.push(format!("presized:reserve_items-form:{}:{w}", d.label));
            }
        }
        v.push(format!("presized:reserve_regions:{}", d.label));
        v.push(format!("presized:merge_regions:{}", d.label));
        v.push(format!("presized:merge_capacity:{}", d.label));
        v.push(format!("presized:by-value:{}", d.label));
    }
    for d in plan.reg.iter().filter(|d| !d.flags.coded && plain(d) && d.flags.heap) {
        v.push(format!("growth:{}", d.label));
    }
    v.push("growth:n=16384".into());
    v.push("presized:populated".into());
    for c in FIXED_WIDTH_CASES {
        v.push(format!("presized-arrays:{c}"));
    }
    v
}

pub fn run<E: Entry>(ctx: &mut Ctx) {
    match ctx.what.as_str() {
        "growth" => growth::<E>(ctx),
        _ => presized::<E>(ctx),
    }
}

fn batch<E: Entry>(ctx: &mut Ctx) -> Vec<E::V> {
    let (kind, n) = match ctx.rng.below(4) {
        0 => (Kind::Tiny, ctx.rng.range(2, 200)),    // many small
        1 => (Kind::Long, ctx.rng.range(2, 6)),      // few large
        2 => (Kind::Hostile, ctx.rng.range(2, 40)),  // empty items, ragged
        _ => (Kind::Tiny, ctx.rng.range(2, 12)),
    };
    let mut dom = Dom::new(kind);
    // zero-sized huge vectors are irrelevant for allocation and slow to account
    dom.json_safe = true;
    <E::V as Val>::gen_run(&mut ctx.rng, dom, n)
}

/// Pushes `items` by reference with no harness allocation in between; returns allocator calls
/// and whether any capacity pair changed.
fn measured_push<E: Entry>(r: &mut E::R, items: &[E::V]) -> Result<(alloc::Snap, Vec<(usize, usize)>, Vec<(usize, usize)>), panics::Panic> {
    let before = heap_pairs(r);
    let mut aux = E::R::default();
    let res = panics::catch(|| {
        let snap = alloc::snap();
        for v in items {
            let _ = E::push(r, v, 0, &mut aux);
        }
        alloc::since(snap)
    });
    let after = heap_pairs(r);
    res.map(|d| (d, before, after))
}

/// Same, but every item is handed over by value (`Push<Owned>`); the clones are made before
/// the window opens, so that the only allocator calls inside it are the crate's.
fn measured_push_owned<E: Entry>(r: &mut E::R, items: &[E::V]) -> Result<(alloc::Snap, Vec<(usize, usize)>, Vec<(usize, usize)>), panics::Panic> {
    let before = heap_pairs(r);
    let owned: Vec<E::V> = items.to_vec();
    let res = panics::catch(|| {
        let snap = alloc::snap();
        for v in owned {
            let _ = E::push_owned(r, v);
        }
        alloc::since(snap)
    });
    let after = heap_pairs(r);
    res.map(|d| (d, before, after))
}

fn judge<E: Entry>(ctx: &mut Ctx, how: &str, n: usize, d: alloc::Snap, before: &[(usize, usize)], after: &[(usize, usize)]) {
    let caps_b: Vec<usize> = before.iter().map(|p| p.1).collect();
    let caps_a: Vec<usize> = after.iter().map(|p| p.1).collect();
    if caps_b != caps_a {
        ctx.fail(
            &format!("capacity-changed:{how}"),
            format!("after {how}, pushing exactly the {n} announced items changed the capacities reported by heap_size from {:?} to {:?}", caps_b, caps_a),
        );
        return;
    }
    let plain = !matches!(E::label(), "owned<String>" | "vec<String>");
    if plain && d.calls() != 0 {
        ctx.fail(
            &format!("allocated:{how}"),
            format!("after {how}, pushing exactly the {n} announced items (plain data, by reference) called the allocator {} times ({} alloc, {} realloc)", d.calls(), d.allocs, d.reallocs),
        );
    }
}

fn presized<E: Entry>(ctx: &mut Ctx) {
    let h = ctx.hist_no;
    let items = batch::<E>(ctx);
    let n = items.len();
    let how = h % 3;
    let populated = (h / 3) % 2 == 1;
    let mut target = E::R::default();
    let mut aux = E::R::default();
    if populated && how != 2 {
        let pre = batch::<E>(ctx);
        for v in &pre {
            let _ = E::push(&mut target, v, 0, &mut aux);
        }
        ctx.log(format!("r = default, then {} unrelated items", pre.len()));
        ctx.cover("presized:populated");
    }
    let name;
    match how {
        0 => {
            name = "reserve_items";
            if !E::can_reserve_items() {
                ctx.end_history();
                return;
            }
            let which = (h as usize / 6) % E::reserve_form_count().max(1);
            ctx.log(format!("r.reserve_items[form {which}]({n} items)"));
            ctx.cover(&format!("presized:reserve_items-form:{}:{which}", E::label()));
            if let Err(p) = panics::catch(|| E::reserve_items_form(&mut target, &items, which)) {
                ctx.fail_panic("reserve_items", &p);
                ctx.end_history();
                return;
            }
        }
        1 | 2 => {
            // sources that together hold exactly the items
            let nsrc = 1 + (h as usize / 6) % 3;
            let mut srcs: Vec<E::R> = (0..nsrc).map(|_| E::R::default()).collect();
            for (k, v) in items.iter().enumerate() {
                let _ = E::push(&mut srcs[k * nsrc / n.max(1)], v, 0, &mut aux);
            }
            if how == 1 {
                name = "reserve_regions";
                ctx.log(format!("r.reserve_regions({nsrc} regions holding the {n} items)"));
                if let Err(p) = panics::catch(|| target.reserve_regions(srcs.iter())) {
                    ctx.fail_panic("reserve_regions", &p);
                    ctx.end_history();
                    return;
                }
            } else {
                name = "merge_regions";
                ctx.log(format!("r = merge_regions({nsrc} regions holding the {n} items)"));
                match panics::catch(|| E::R::merge_regions(srcs.iter())) {
                    Ok(r) => target = r,
                    Err(p) => {
                        ctx.fail_panic("merge_regions", &p);
                        ctx.end_history();
                        return;
                    }
                }
            }
        }
        _ => unreachable!(),
    }
    let by_value = E::can_push_owned() && (h / 2) % 2 == 1;
    ctx.log(format!("push the {n} announced items {} (measured window)", if by_value { "by value" } else { "by reference" }));
    if by_value {
        ctx.cover(&format!("presized:by-value:{}", E::label()));
    }
    let measured = if by_value { measured_push_owned::<E>(&mut target, &items) } else { measured_push::<E>(&mut target, &items) };
    match measured {
        Ok((d, before, after)) => {
            ctx.count("presized_pushes", n as u64);
            ctx.count("allocator_calls_in_presized_windows", d.calls());
            judge::<E>(ctx, name, n, d, &before, &after);
        }
        Err(p) => ctx.fail_panic("push", &p),
    }
    ctx.cover(&format!("presized:{name}:{}", E::label()));
    ctx.nontrivial = n >= 2;
    if ctx.rep.samples.len() < 2 {
        let first: Vec<String> = items.iter().take(3).map(|v| v.render()).collect();
        ctx.rep.samples.push(serde_json::json!({"entry": E::label(), "scenario": format!("P/{name}{}", if populated { "/populated" } else { "" }), "items": n, "first_items": first}));
    }
    ctx.end_history();
}

pub fn run_stack<E: Entry, S: IdxC<Idx<E>>>(ctx: &mut Ctx) {
    if S::KIND != "vec" {
        // the statement names FlatStack's vector index storage
        ctx.end_history();
        return;
    }
    let items = batch::<E>(ctx);
    let n = items.len();
    let nsrc = 1 + (ctx.hist_no as usize / 3) % 3;
    let mut aux = E::R::default();
    let mut srcs: Vec<Stack<E, S>> = (0..nsrc).map(|_| Stack::<E, S>::default()).collect();
    for (k, v) in items.iter().enumerate() {
        E::fs_copy(&mut srcs[k * nsrc / n.max(1)], v, 0, &mut aux);
    }
    ctx.log(format!("fs = FlatStack::merge_capacity({nsrc} stacks holding the {n} items); copy them by reference (measured window)"));
    let mut fs = match panics::catch(|| Stack::<E, S>::merge_capacity(srcs.iter())) {
        Ok(f) => f,
        Err(p) => {
            ctx.fail_panic("merge_capacity", &p);
            ctx.end_history();
            return;
        }
    };
    let pairs = |fs: &Stack<E, S>| {
        let mut v = Vec::new();
        fs.heap_size(|u, c| v.push((u, c)));
        v
    };
    let before = pairs(&fs);
    let res = panics::catch(|| {
        let snap = alloc::snap();
        for v in &items {
            E::fs_copy(&mut fs, v, 0, &mut aux);
        }
        alloc::since(snap)
    });
    match res {
        Ok(d) => {
            let after = pairs(&fs);
            judge::<E>(ctx, "merge_capacity", n, d, &before, &after);
            ctx.count("presized_pushes", n as u64);
        }
        Err(p) => ctx.fail_panic("copy", &p),
    }
    ctx.cover(&format!("presized:merge_capacity:{}", E::label()));
    ctx.nontrivial = n >= 2;
    ctx.end_history();
}

/// Scenario L: allocator calls while pushing n items without pre-sizing.
fn growth<E: Entry>(ctx: &mut Ctx) {
    let pool: Vec<E::V> = {
        let mut dom = Dom::new(Kind::Tiny);
        dom.json_safe = true;
        <E::V as Val>::gen_run(&mut ctx.rng, dom, 64)
    };
    let mut calls_at: Vec<(usize, u64, usize)> = Vec::new();
    let sizes: &[usize] = if ctx.tier == Tier::Miri { &SIZES[..1] } else { &SIZES };
    for &n in sizes {
        let mut r = E::R::default();
        let mut aux = E::R::default();
        let res = panics::catch(|| {
            let snap = alloc::snap();
            for k in 0..n {
                let _ = E::push(&mut r, &pool[k % pool.len()], 0, &mut aux);
            }
            alloc::since(snap)
        });
        let d = match res {
            Ok(d) => d,
            Err(p) => {
                ctx.fail_panic("push", &p);
                ctx.end_history();
                return;
            }
        };
        let storages = heap_pairs(&r).len().max(1);
        calls_at.push((n, d.calls(), storages));
        let log2 = (usize::BITS - n.leading_zeros()) as u64;
        let bound = storages as u64 * (log2 + 12);
        if d.calls() > bound {
            ctx.fail(
                "allocations-not-logarithmic",
                format!("pushing {n} plain items by reference called the allocator {} times; {} storages allow at most {bound} (S*(log2(n)+12))", d.calls(), storages),
            );
            break;
        }
        if n == 16384 {
            ctx.cover("growth:n=16384");
        }
    }
    ctx.log(format!("(n, allocator calls, storages): {:?}", calls_at));
    for w in calls_at.windows(2) {
        let (n0, c0, _) = w[0];
        let (n1, c1, s1) = w[1];
        if c1 > c0 + 3 * s1 as u64 + 4 {
            ctx.fail(
                "allocations-grow-with-n",
                format!("{n0} items cost {c0} allocator calls, {n1} items cost {c1}: doubling n added {} calls, more than 3*S+4 = {}", c1 - c0, 3 * s1 + 4),
            );
            break;
        }
    }
    ctx.count("growth_runs", calls_at.len() as u64);
    if ctx.rep.samples.len() < 3 {
        ctx.rep.samples.push(serde_json::json!({"entry": E::label(), "scenario": "L", "n_calls_storages": format!("{:?}", calls_at)}));
    }
    ctx.cover(&format!("growth:{}", E::label()));
    ctx.nontrivial = true;
    ctx.end_history();
}

/// A fixed scenario whose counter readings are printed for comparison with valgrind's count.
fn alloc_probe(ctx: &mut Ctx) {
    use crate::catalogue::ESliceString;
    type E = ESliceString;
    let items: Vec<Vec<String>> = (0..500).map(|i| (0..(i % 7)).map(|j| format!("item-{i}-{j}")).collect()).collect();
    let mut aux = <E as Entry>::R::default();
    let mut r = <E as Entry>::R::default();
    let presized = ctx.what == "alloc-probe-presized";
    if presized {
        <E as Entry>::reserve_items(&mut r, &items);
    }
    let snap = alloc::snap();
    for v in &items {
        let _ = <E as Entry>::push(&mut r, v, 0, &mut aux);
    }
    let d = alloc::since(snap);
    println!("ALLOC-PROBE window_calls={} process_calls={}", d.calls(), alloc::process_calls());
    ctx.nontrivial = true;
    ctx.end_history();
}

// ---------------------------------------------------------------- array / `&&str` forms of ReserveItems

/// The announced-item forms that need items of one fixed width and are therefore not among the
/// catalogue's reserve forms: `&[T; N]` into owned-slice and slice regions (directly and
/// reached through `&Vec<[T; N]>`, `&Option<[T; N]>`, FlatStack), `&&str` into string regions.
const FIXED_WIDTH_CASES: [&str; 8] = [
    "owned<u8>:&[T;N]",
    "owned<u64>:&[T;N]",
    "slice<mirror<u8>>:&[T;N]",
    "slice<string>:&[String;N]",
    "slice<owned<u8>>:&Vec<[T;N]>",
    "option<owned<u8>>:&Option<[T;N]>",
    "stack<owned<u8>>:&[T;N]",
    "string:&&str",
];

fn fixed_judge(ctx: &mut Ctx, case: &str, n: usize, width: usize, d: alloc::Snap, before: Vec<(usize, usize)>, after: Vec<(usize, usize)>) {
    let caps_b: Vec<usize> = before.iter().map(|p| p.1).collect();
    let caps_a: Vec<usize> = after.iter().map(|p| p.1).collect();
    if caps_b != caps_a {
        ctx.fail(
            &format!("capacity-changed:reserve_items:{case}"),
            format!("{case}: after reserve_items over {n} items of width {width}, pushing exactly those items changed the capacities reported by heap_size from {caps_b:?} to {caps_a:?}"),
        );
    } else if d.calls() != 0 {
        ctx.fail(
            &format!("allocated:reserve_items:{case}"),
            format!("{case}: after reserve_items over {n} items of width {width}, pushing exactly those items called the allocator {} times", d.calls()),
        );
    }
    ctx.cover(&format!("presized-arrays:{case}"));
    ctx.nontrivial = n >= 2;
}

fn fixed_width(ctx: &mut Ctx) {
    use flatcontainer::impls::slice_owned::OwnedRegion;
    use flatcontainer::{FlatStack, MirrorRegion, OptionRegion, Push, ReserveItems, SliceRegion, StringRegion};
    let h = ctx.hist_no as usize;
    let n = [1usize, 2, 7, 40, 300, 2500][h % 6];
    // a populated region every other time: the reservation comes on top of what is stored
    let prefill = (h / 6) % 2 == 1;
    macro_rules! widths {
        ($w:expr, $body:ident) => {
            match $w {
                0 => $body!(2),
                1 => $body!(3),
                2 => $body!(8),
                _ => $body!(33),
            }
        };
    }
    let heap = |f: &dyn Fn(&mut dyn FnMut(usize, usize))| {
        let mut v = Vec::new();
        f(&mut |u, c| v.push((u, c)));
        v
    };
    let case = FIXED_WIDTH_CASES[(h / 12) % FIXED_WIDTH_CASES.len()];
    let w = (h / 3) % 4;
    ctx.log(format!("{case}: {n} items, width class {w}, prefilled: {prefill}"));
    macro_rules! run_case {
        ($region:expr, $items:expr, $width:expr, |$r:ident, $it:ident| $reserve:expr, |$r2:ident, $x:ident| $push:expr, $pre:expr) => {{
            let mut $r = $region;
            let items = $items;
            if prefill {
                let $r2 = &mut $r;
                for $x in items.iter().take(3) {
                    let _ = $push;
                }
                let _ = $pre;
            }
            let res = panics::catch(|| {
                {
                    let $it = &items;
                    $reserve;
                }
                let before = heap(&|cb| $r.heap_size(cb));
                let snap = alloc::snap();
                {
                    let $r2 = &mut $r;
                    for $x in items.iter() {
                        let _ = $push;
                    }
                }
                let d = alloc::since(snap);
                let after = heap(&|cb| $r.heap_size(cb));
                (d, before, after)
            });
            match res {
                Ok((d, before, after)) => fixed_judge(ctx, case, items.len(), $width, d, before, after),
                Err(p) => ctx.fail_panic("presized-arrays", &p),
            }
        }};
    }
    match case {
        "owned<u8>:&[T;N]" => {
            macro_rules! body {
                ($N:literal) => {
                    run_case!(OwnedRegion::<u8>::default(), (0..n).map(|k| [k as u8; $N]).collect::<Vec<[u8; $N]>>(), $N, |r, it| r.reserve_items(it.iter()), |r, x| r.push(x), ())
                };
            }
            widths!(w, body)
        }
        "owned<u64>:&[T;N]" => {
            macro_rules! body {
                ($N:literal) => {
                    run_case!(OwnedRegion::<u64>::default(), (0..n).map(|k| [k as u64; $N]).collect::<Vec<[u64; $N]>>(), $N, |r, it| r.reserve_items(it.iter()), |r, x| r.push(x), ())
                };
            }
            widths!(w, body)
        }
        "slice<mirror<u8>>:&[T;N]" => {
            macro_rules! body {
                ($N:literal) => {
                    run_case!(SliceRegion::<MirrorRegion<u8>>::default(), (0..n).map(|k| [k as u8; $N]).collect::<Vec<[u8; $N]>>(), $N, |r, it| r.reserve_items(it.iter()), |r, x| r.push(x), ())
                };
            }
            widths!(w, body)
        }
        "slice<string>:&[String;N]" => {
            macro_rules! body {
                ($N:literal) => {
                    run_case!(
                        SliceRegion::<StringRegion>::default(),
                        (0..n).map(|k| std::array::from_fn::<String, $N, _>(|j| "x".repeat((k + j) % 5))).collect::<Vec<[String; $N]>>(),
                        $N,
                        |r, it| r.reserve_items(it.iter()),
                        |r, x| r.push(x),
                        ()
                    )
                };
            }
            widths!(w, body)
        }
        "slice<owned<u8>>:&Vec<[T;N]>" => {
            macro_rules! body {
                ($N:literal) => {
                    run_case!(
                        SliceRegion::<OwnedRegion<u8>>::default(),
                        (0..n).map(|k| vec![[k as u8; $N]; k % 4]).collect::<Vec<Vec<[u8; $N]>>>(),
                        $N,
                        |r, it| r.reserve_items(it.iter()),
                        |r, x| r.push(x),
                        ()
                    )
                };
            }
            widths!(w, body)
        }
        "option<owned<u8>>:&Option<[T;N]>" => {
            macro_rules! body {
                ($N:literal) => {
                    run_case!(
                        OptionRegion::<OwnedRegion<u8>>::default(),
                        (0..n).map(|k| if k % 5 == 4 { None } else { Some([k as u8; $N]) }).collect::<Vec<Option<[u8; $N]>>>(),
                        $N,
                        |r, it| r.reserve_items(it.iter()),
                        |r, x| r.push(x),
                        ()
                    )
                };
            }
            widths!(w, body)
        }
        "stack<owned<u8>>:&[T;N]" => {
            macro_rules! body {
                ($N:literal) => {
                    run_case!(
                        {
                            let mut fs = FlatStack::<OwnedRegion<u8>>::default();
                            fs.reserve(n + 3);
                            fs
                        },
                        (0..n).map(|k| [k as u8; $N]).collect::<Vec<[u8; $N]>>(),
                        $N,
                        |r, it| r.reserve_items(it.iter()),
                        |r, x| r.copy(x),
                        r.reserve(n)
                    )
                };
            }
            widths!(w, body)
        }
        _ => {
            let owned: Vec<String> = (0..n).map(|k| "é".repeat(1 + (k * 7 + w) % 9)).collect();
            let strs: Vec<&str> = owned.iter().map(|s| s.as_str()).collect();
            run_case!(StringRegion::default(), strs, 0, |r, it| r.reserve_items(it.iter()), |r, x| <StringRegion as Push<&&str>>::push(r, x), ())
        }
    }
    ctx.end_history();
}
