//! C16 — serialisation round trip preserves contents and future behaviour.

use super::c02::LiveStack;
use super::util::*;
use super::{entry_jobs, stack_jobs, standalone, Plan, PropDef};
use crate::check::Lvl;
use crate::driver::{Ctx, Job, Tier};
use crate::entry::{Entry, Idx, IdxC, Stack};
use crate::live::{heap_of, Live};
use crate::panics;
use crate::val::{Dom, Kind, Same, Val};
use flatcontainer::impls::index::{IndexList, IndexOptimized, Stride};

pub const DEF: PropDef = PropDef {
    id: "C16",
    jobs,
    required,
    rule: "one case = history H1 on a serde-enabled entry (region, FlatStack with each index container, or a bare index container), serialised to JSON at an arbitrary point and deserialised; the copy must read like the original at every issued index, and then both are driven through the same continuation H2: returned indices, reads and summed used bytes (index-compression decisions) must agree step by step. Round trips are taken with a pending collapsible item, with striding / saturated / spilled / u64 index containers, with several columns, and on empty regions. Bare index containers are compared with == and Debug after every continuation step. Non-trivial = H1 and H2 both non-empty; distinct = distinct hash of (entry, operation list).",
    assumptions: &[
        "the carrier is serde_json: values are restricted to what JSON represents losslessly (finite floats with short expansions; no entry with directly nested Option indices)",
        "codec and Huffman regions do not implement serde and are not exercised",
    ],
};

fn eligible(d: &crate::registry::Dyn) -> bool {
    d.flags.serde && d.flags.json_lossless
}

fn jobs(plan: &Plan) -> Vec<Job> {
    let t = plan.tier;
    let mut v = entry_jobs(plan, "C16", "roundtrip", t.pick(60, 600, 1), eligible);
    v.extend(stack_jobs(plan, "C16", "stack-roundtrip", t.pick(16, 150, 0), eligible));
    for h in 0..t.pick(300, 20000, 1) {
        v.push(standalone("index-containers", "bare", h, bare));
    }
    v.extend(entry_jobs(plan, "C16", "chain", t.pick(32, 300, 1), |d| super::chain::eligible(d, super::chain::Fin::Serde)));
    v.extend(stack_jobs(plan, "C16", "stack-chain", t.pick(6, 50, 0), |d| super::chain::eligible_stack(d, super::chain::Fin::Serde)));
    v
}

fn required(plan: &Plan) -> Vec<String> {
    if plan.tier == Tier::Miri {
        return vec![];
    }
    let mut v = Vec::new();
    for d in plan.reg.iter().filter(|d| eligible(d)) {
        v.push(format!("roundtrip:{}", d.label));
        v.push(format!("stack-roundtrip:{}", d.label));
        if d.flags.collapse_top {
            v.push(format!("pending-collapsible:{}", d.label));
        }
    }
    for c in ["empty-region", "stride:Striding", "stride:Saturated", "optimized:spilled", "list:u64", "columns>=2"] {
        v.push(format!("state:{c}"));
    }
    for d in plan.reg {
        if super::chain::eligible(d, super::chain::Fin::Serde) {
            v.push(format!("chain:{}", d.label));
        }
        if super::chain::eligible_stack(d, super::chain::Fin::Serde) {
            v.push(format!("stack-chain:{}", d.label));
        }
    }
    v.push("next-generation".into());
    v.extend(super::chain::required_pairs(super::chain::Fin::Serde));
    v
}

pub fn run<E: Entry>(ctx: &mut Ctx) {
    if ctx.what == "chain" {
        return super::chain::run::<E>(ctx, super::chain::Fin::Serde, "copy-continuation");
    }
    let h = ctx.hist_no;
    let kind = kind_for(h);
    let n1 = if h % 7 == 0 { 0 } else { ctx.rng.range(1, if ctx.tier == Tier::Miri { 5 } else { 30 }) };
    let pool: Vec<E::V> = <E::V as Val>::gen_run(&mut ctx.rng, Dom::new(kind).json(), n1 + 6);
    let nforms = Live::<E>::nforms();
    let mut a = Live::<E>::new("a");
    let mut last: Option<E::V> = None;
    for _ in 0..n1 {
        let v = draw::<E>(ctx, &pool, last.as_ref());
        if { let f__ = ctx.rng.below(nforms); a.push(ctx, &v, f__) }.is_none() {
            ctx.end_history();
            return;
        }
        last = Some(v);
    }
    if n1 == 0 {
        ctx.cover("state:empty-region");
    }
    if E::label().starts_with("columns") && a.issued.iter().map(|x| x.1.width()).max().unwrap_or(0) >= 2 {
        ctx.cover("state:columns>=2");
    }
    let json = match panics::catch(|| E::to_json(&a.r)) {
        Ok(Some(Ok(s))) => s,
        Ok(Some(Err(e))) => {
            ctx.fail("serialize-error", format!("serialising failed: {e}"));
            ctx.end_history();
            return;
        }
        Ok(None) => {
            ctx.end_history();
            return;
        }
        Err(p) => {
            ctx.fail_panic("serialize", &p);
            ctx.end_history();
            return;
        }
    };
    ctx.log(format!("b = from_json(to_json(a))   ({} bytes of JSON)", json.len()));
    let rb = match panics::catch(|| E::from_json(&json)) {
        Ok(Some(Ok(r))) => r,
        Ok(Some(Err(e))) => {
            ctx.fail("deserialize-error", format!("deserialising the region's own serialisation failed: {e}; JSON: {}", crate::val::clip(json)));
            ctx.end_history();
            return;
        }
        Ok(None) => {
            ctx.end_history();
            return;
        }
        Err(p) => {
            ctx.fail_panic("deserialize", &p);
            ctx.end_history();
            return;
        }
    };
    let mut b = Live::<E>::from_region("b", rb);
    b.issued = a.issued.clone();
    if !b.check_all(ctx, Lvl::BASIC, "copy-reads") {
        ctx.end_history();
        return;
    }
    if E::can_heap() && a.heap().unwrap().used != b.heap().unwrap().used {
        ctx.fail("copy-used-bytes", format!("the copy accounts {} used bytes, the original {}", b.heap().unwrap().used, a.heap().unwrap().used));
        ctx.end_history();
        return;
    }
    let n2 = ctx.rng.range(1, 14);
    for k in 0..n2 {
        let v = if k == 0 && last.is_some() {
            if E::collapse_top() {
                ctx.cover(&format!("pending-collapsible:{}", E::label()));
            }
            last.clone().unwrap()
        } else {
            draw::<E>(ctx, &pool, last.as_ref())
        };
        let form = ctx.rng.below(nforms);
        if !push_both(ctx, &mut a, &mut b, &v, form, form, "copy-continuation", "original vs. deserialised copy") {
            break;
        }
        if n1 > 0 {
            ctx.nontrivial = true;
        }
        if !b.check_all(ctx, Lvl::BASIC, "copy-reads") {
            break;
        }
        if E::can_heap() {
            let (ha, hb) = (a.heap().unwrap(), b.heap().unwrap());
            if ha.used != hb.used {
                ctx.fail("copy-used-bytes", format!("after the same continuation the copy accounts {} used bytes, the original {}", hb.used, ha.used));
                break;
            }
        }
        last = Some(v);
    }
    ctx.cover(&format!("roundtrip:{}", E::label()));
    ctx.end_history();
}

pub fn run_stack<E: Entry, S: IdxC<Idx<E>>>(ctx: &mut Ctx) {
    if ctx.what == "stack-chain" {
        return super::chain::run_stack::<E, S>(ctx, super::chain::Fin::Serde, "stack-copy-continuation");
    }
    let kind = kind_for(ctx.hist_no / 3);
    let n1 = ctx.rng.range(0, 60);
    let pool: Vec<E::V> = <E::V as Val>::gen_run(&mut ctx.rng, Dom::new(kind).json(), n1.max(4));
    let nforms = E::form_names().len();
    let mut a = LiveStack::<E, S>::new("a");
    ctx.log(format!("a = FlatStack<{}, {}>::default()", E::label(), S::KIND));
    for k in 0..n1 {
        if !{ let f__ = ctx.rng.below(nforms); a.copy(ctx, &pool[k % pool.len()], f__) } {
            ctx.end_history();
            return;
        }
    }
    let json = match panics::catch(|| E::fs_to_json(&a.fs)) {
        Ok(Some(Ok(s))) => s,
        Ok(Some(Err(e))) => {
            ctx.fail("stack-serialize-error", e);
            ctx.end_history();
            return;
        }
        Ok(None) => {
            ctx.end_history();
            return;
        }
        Err(p) => {
            ctx.fail_panic("stack-serialize", &p);
            ctx.end_history();
            return;
        }
    };
    ctx.log(format!("b = from_json(to_json(a))   ({} bytes)", json.len()));
    let fb = match panics::catch(|| E::fs_from_json::<S>(&json)) {
        Ok(Some(Ok(f))) => f,
        Ok(Some(Err(e))) => {
            ctx.fail("stack-deserialize-error", format!("{e}; JSON: {}", crate::val::clip(json)));
            ctx.end_history();
            return;
        }
        Ok(None) => {
            ctx.end_history();
            return;
        }
        Err(p) => {
            ctx.fail_panic("stack-deserialize", &p);
            ctx.end_history();
            return;
        }
    };
    let mut b = LiveStack::<E, S>::from_stack("b", fb);
    b.model = a.model.clone();
    let heap = |st: &LiveStack<E, S>| {
        let mut u = 0usize;
        st.fs.heap_size(|x, _| u += x);
        u
    };
    let mut ok = b.fs.len() == a.fs.len() && b.check_all_get(ctx, Lvl::BASIC, "stack-copy-reads");
    if b.fs.len() != a.fs.len() {
        ctx.fail("stack-copy-len", format!("copy has len {}, original {}", b.fs.len(), a.fs.len()));
    }
    if ok && S::KIND == "optimized" && E::label() == "mirror<usize>" && E::can_heap() && heap(&a) > 0 {
        ctx.cover("state:optimized:spilled");
    }
    for _ in 0..ctx.rng.range(1, 12) {
        if !ok {
            break;
        }
        let v = pool[ctx.rng.below(pool.len())].clone();
        let form = ctx.rng.below(nforms);
        ok = a.copy(ctx, &v, form) && b.copy(ctx, &v, form);
        ok = ok && b.check_all_get(ctx, Lvl::BASIC, "stack-copy-reads");
        if ok && (a.fs.len() != b.fs.len()) {
            ctx.fail("stack-copy-len", format!("after the same continuation: copy len {}, original {}", b.fs.len(), a.fs.len()));
            ok = false;
        }
        if ok && E::can_heap() && heap(&a) != heap(&b) {
            ctx.fail("stack-copy-used-bytes", format!("after the same continuation the copy accounts {} used bytes, the original {} (different index-compression decisions)", heap(&b), heap(&a)));
            ok = false;
        }
        if n1 > 0 {
            ctx.nontrivial = true;
        }
    }
    ctx.cover(&format!("stack-roundtrip:{}", E::label()));
    ctx.end_history();
}

/// Bare index containers: Stride, IndexList, IndexOptimized.
fn bare(ctx: &mut Ctx) {
    let n1 = ctx.rng.range(0, 40);
    let seq: Vec<usize> = <usize as Val>::gen_run(&mut ctx.rng, Dom::new(Kind::Hostile), n1 + 12);
    let (h1, h2) = seq.split_at(n1);
    macro_rules! roundtrip {
        ($t:ty, $name:expr, $push:expr) => {{
            let mut a: $t = Default::default();
            for &x in h1 {
                $push(&mut a, x);
            }
            let res = panics::catch(|| -> Result<(), String> {
                let s = serde_json::to_string(&a).map_err(|e| e.to_string())?;
                let mut b: $t = serde_json::from_str(&s).map_err(|e| format!("{e}; JSON {s}"))?;
                if a != b {
                    return Err(format!("copy {:?} differs from original {:?}", b, a));
                }
                for &x in h2 {
                    $push(&mut a, x);
                    $push(&mut b, x);
                    if a != b || format!("{:?}", a) != format!("{:?}", b) {
                        return Err(format!("after pushing {x}: copy {:?}, original {:?}", b, a));
                    }
                }
                Ok(())
            });
            ctx.log(format!("{}: {} values, JSON round trip, {} more values", $name, h1.len(), h2.len()));
            match res {
                Ok(Ok(())) => {}
                Ok(Err(e)) => ctx.fail(&format!("bare:{}", $name), e),
                Err(p) => ctx.fail(&format!("bare:{}:panic:{}", $name, p.file()), p.short()),
            }
            a
        }};
    }
    let s = roundtrip!(Stride, "Stride", |c: &mut Stride, x: usize| {
        let _ = c.push(x);
    });
    match s {
        Stride::Striding(..) => ctx.cover("state:stride:Striding"),
        Stride::Saturated(..) => ctx.cover("state:stride:Saturated"),
        _ => {}
    }
    let l = roundtrip!(IndexList<Vec<u32>, Vec<u64>>, "IndexList", |c: &mut IndexList<Vec<u32>, Vec<u64>>, x: usize| c.push(x));
    if !l.chonk.is_empty() {
        ctx.cover("state:list:u64");
    }
    let _ = roundtrip!(IndexOptimized, "IndexOptimized", |c: &mut IndexOptimized, x: usize| {
        flatcontainer::impls::index::IndexContainer::push(c, x)
    });
    ctx.nontrivial = !h1.is_empty();
    ctx.end_history();
}
