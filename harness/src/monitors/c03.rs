//! C03 — FlatStack is a faithful append-only sequence for every index container.

use super::c02::LiveStack;
use super::{stack_jobs, Plan, PropDef};
use crate::check::{drain_checked, Lvl};
use crate::driver::{Ctx, Job, Tier};
use crate::entry::{Entry, Idx, IdxC, Stack};
use crate::panics;
use crate::val::{Dom, Kind, Same, Val};
use flatcontainer::IntoOwned;

pub const DEF: PropDef = PropDef {
    id: "C03",
    jobs,
    required,
    rule: "one case = one history of copy (any form) / extend / from_iter / clear / clone / clone_from / reserve / reserve_items on FlatStack<R, S> for one catalogue entry R and one admissible index container S (Vec, IndexOptimized, IndexList). After every operation the stack is compared with a Vec of owned values: len, is_empty, get(i) for all i, iter() and into_iter() element-wise with size hints bracketing the true remainder, a cloned iterator advanced independently, and get(len), get(len+1), get(len+7), get(usize::MAX) must each panic. extend / from_iter are compared with repeated copy on a twin. Non-trivial = at least 2 elements held at some point; distinct = distinct hash of (entry, container, operation list).",
    assumptions: &[
        "mirror<usize> / vec regions make arbitrary usize values flow through the index containers; other entries produce their natural index sequences",
    ],
};

fn jobs(plan: &Plan) -> Vec<Job> {
    let t = plan.tier;
    let mut v = stack_jobs(plan, "C03", "sequence", t.pick(24, 600, 1), |_| true);
    v.extend(stack_jobs(plan, "C03", "long", t.pick(3, 30, 0), |d| d.flags.idx_usize));
    v
}

fn required(plan: &Plan) -> Vec<String> {
    if plan.tier == Tier::Miri {
        return vec![];
    }
    let mut v = Vec::new();
    for d in plan.reg {
        v.push(format!("stack:{}:vec", d.label));
        if d.flags.idx_usize {
            v.push(format!("stack:{}:optimized", d.label));
            v.push(format!("stack:{}:list", d.label));
        }
    }
    for k in ["vec", "optimized", "list"] {
        v.push(format!("big:{k}"));
        v.push(format!("oob:{k}:empty"));
        v.push(format!("oob:{k}:nonempty"));
    }
    for op in ["copy", "extend", "from_iter", "clear", "clone", "clone_from", "reserve"] {
        v.push(format!("op:{op}"));
    }
    v.push("optimized:spilled".into());
    v
}

fn sweep<E: Entry, S: IdxC<Idx<E>>>(ctx: &mut Ctx, st: &LiveStack<E, S>, full: bool) -> bool {
    let fs = &st.fs;
    let model = &st.model;
    let n = model.len();
    let res = panics::catch(|| -> Result<(), String> {
        if fs.len() != n {
            return Err(format!("len() = {}, expected {n}", fs.len()));
        }
        if fs.is_empty() != (n == 0) {
            return Err(format!("is_empty() = {}, len is {n}", fs.is_empty()));
        }
        if !full {
            return Ok(());
        }
        for (i, v) in model.iter().enumerate() {
            E::check(fs.get(i), v, Lvl::BASIC).map_err(|e| format!("get({i}): {e}"))?;
        }
        let items = drain_checked(fs.iter(), n, "iter()")?;
        for (i, (item, v)) in items.into_iter().zip(model.iter()).enumerate() {
            E::check(item, v, Lvl::BASIC).map_err(|e| format!("iter() element {i}: {e}"))?;
        }
        // iteration through nth / skip / step_by / count / last (each may be overridden by the
        // stack's or the index container's iterator)
        crate::check::adaptors_checked(|| fs.iter(), n, "iter()", &|k, x| E::check(x, &model[k], Lvl::BASIC))?;
        let items = drain_checked(fs.into_iter(), n, "into_iter()")?;
        for (i, (item, v)) in items.into_iter().zip(model.iter()).enumerate() {
            let o = item.into_owned();
            if !o.same(v) {
                return Err(format!("into_iter() element {i}: got {}, expected {}", o.render(), v.render()));
            }
        }
        // a cloned iterator advances independently
        if n >= 2 {
            let mut it = fs.iter();
            let _ = it.next();
            let mut it2 = it.clone();
            let a = it.next().map(|x| x.into_owned());
            let rest: Vec<_> = it2.by_ref().map(|x| x.into_owned()).collect();
            if rest.len() != n - 1 {
                return Err(format!("cloned iterator yields {} elements after one step, expected {}", rest.len(), n - 1));
            }
            if !a.as_ref().map_or(false, |a| a.same(&model[1])) || !rest[0].same(&model[1]) {
                return Err("cloned iterator and original disagree on the second element".into());
            }
            let b = it.next().map(|x| x.into_owned());
            match (b, model.get(2)) {
                (Some(b), Some(m)) if b.same(m) => {}
                (None, None) => {}
                _ => return Err("original iterator was disturbed by advancing its clone".into()),
            }
        }
        Ok(())
    });
    match res {
        Ok(Ok(())) => true,
        Ok(Err(e)) => {
            ctx.fail("sequence", format!("FlatStack<{}, {}> holding {n} items: {e}", E::label(), S::KIND));
            false
        }
        Err(p) => {
            ctx.fail(&format!("sequence:panic:{}", p.file()), format!("FlatStack<{}, {}> holding {n} items panicked while being read: {}", E::label(), S::KIND, p.short()));
            false
        }
    }
}

fn debug_matches<E: Entry, S: IdxC<Idx<E>>>(ctx: &mut Ctx, st: &LiveStack<E, S>) -> bool {
    let n = st.model.len();
    if n > 40 || st.model.iter().any(|v| v.render().contains('…')) {
        return true;
    }
    if E::collapse_top() && E::label().contains("f64") {
        // 0.0 and -0.0 are legitimately collapsed into one stored item but render differently
        return true;
    }
    let fs = &st.fs;
    match panics::catch(|| E::fs_debug(fs)) {
        Ok(got) => {
            let want = format!("{:?}", st.model);
            if got != want {
                ctx.fail("debug", format!("Debug of FlatStack<{}, {}> is {got}, the copied values render as {want}", E::label(), S::KIND));
                return false;
            }
            true
        }
        Err(p) => {
            ctx.fail(&format!("debug:panic:{}", p.file()), format!("Debug of the stack panicked: {}", p.short()));
            false
        }
    }
}

fn oob<E: Entry, S: IdxC<Idx<E>>>(ctx: &mut Ctx, st: &LiveStack<E, S>) -> bool {
    let n = st.model.len();
    let fs = &st.fs;
    for i in [n, n + 1, n + 7, usize::MAX] {
        ctx.count("stack_oob_probes", 1);
        let returned = !panics::panics(|| {
            let _ = fs.get(i);
        });
        if returned {
            ctx.fail("oob", format!("FlatStack<{}, {}>::get({i}) on a stack of {n} items returned instead of panicking", E::label(), S::KIND));
            return false;
        }
    }
    ctx.cover(&format!("oob:{}:{}", S::KIND, if n == 0 { "empty" } else { "nonempty" }));
    true
}

pub fn run<E: Entry, S: IdxC<Idx<E>>>(ctx: &mut Ctx) {
    let long = ctx.what == "long";
    let h = ctx.hist_no;
    let kind = if long { Kind::Hostile } else { [Kind::Hostile, Kind::Tiny, Kind::Long][((h / 3) % 3) as usize] };
    let nops = if long { ctx.tier.pick(700, 2500, 10) as usize } else { ctx.rng.range(1, if ctx.tier == Tier::Miri { 8 } else { 40 }) };
    let pool: Vec<E::V> = if long {
        <E::V as Val>::gen_run(&mut ctx.rng, Dom::new(kind), 400)
    } else {
        <E::V as Val>::gen_run(&mut ctx.rng, Dom::new(kind), nops.max(4))
    };
    let nforms = E::form_names().len();
    let mut st = LiveStack::<E, S>::new("fs");
    ctx.log(format!("fs = FlatStack<{}, {}>::default()", E::label(), S::KIND));
    let mut cursor = 0usize;
    let mut ok = true;
    for op in 0..nops {
        let choice = if long { if ctx.rng.chance(1, 200) { 5 } else { 0 } } else { ctx.rng.below(20) };
        match choice {
            0..=9 => {
                // in long histories follow the pool in order so that structured runs survive
                // follow the pool in order (long histories always, short ones every other
                // history) so that structured runs - strides, saturation tails, breaks - survive
                let v = if long || h % 2 == 0 {
                    cursor += 1;
                    pool[(cursor - 1) % pool.len()].clone()
                } else {
                    pool[ctx.rng.below(pool.len())].clone()
                };
                ok = { let f__ = ctx.rng.below(nforms); st.copy(ctx, &v, f__) };
                ctx.cover("op:copy");
            }
            10 | 11 => {
                let k = ctx.rng.range(0, 6);
                let vals: Vec<E::V> = (0..k).map(|_| pool[ctx.rng.below(pool.len())].clone()).collect();
                let fs = &mut st.fs;
                match panics::catch(|| E::fs_extend(fs, &vals)) {
                    Ok(()) => {
                        ctx.log(format!("fs.extend({k} values)"));
                        st.model.extend(vals);
                        ctx.cover("op:extend");
                    }
                    Err(p) => {
                        ctx.fail_panic("extend", &p);
                        ok = false;
                    }
                }
            }
            12 => {
                // from_iter must equal repeated copy
                let k = ctx.rng.range(0, 8);
                let vals: Vec<E::V> = (0..k).map(|_| pool[ctx.rng.below(pool.len())].clone()).collect();
                match panics::catch(|| E::fs_from_iter::<S>(&vals)) {
                    Ok(fs2) => {
                        ctx.log(format!("fs = FlatStack::from_iter({k} values)"));
                        st = LiveStack::from_stack("fs", fs2);
                        st.model = vals;
                        ctx.cover("op:from_iter");
                    }
                    Err(p) => {
                        ctx.fail_panic("from_iter", &p);
                        ok = false;
                    }
                }
            }
            13 => {
                let fs = &mut st.fs;
                match panics::catch(|| fs.clear()) {
                    Ok(()) => {
                        ctx.log("fs.clear()".into());
                        st.model.clear();
                        ctx.cover("op:clear");
                    }
                    Err(p) => {
                        ctx.fail_panic("clear", &p);
                        ok = false;
                    }
                }
            }
            14 => {
                if let Some(c) = E::fs_clone(&st.fs) {
                    ctx.log("fs = fs.clone()".into());
                    let model = std::mem::take(&mut st.model);
                    st = LiveStack::from_stack("fs", c);
                    st.model = model;
                    ctx.cover("op:clone");
                }
            }
            15 => {
                // clone_from into a stack with unrelated contents
                if E::can_clone() {
                    let mut dst = LiveStack::<E, S>::new("dst");
                    for _ in 0..ctx.rng.below(5) {
                        let v = pool[ctx.rng.below(pool.len())].clone();
                        if !dst.copy(ctx, &v, 0) {
                            ok = false;
                        }
                    }
                    if ok {
                        E::fs_clone_from(&mut dst.fs, &st.fs);
                        ctx.log("dst.clone_from(&fs); fs = dst".into());
                        let model = std::mem::take(&mut st.model);
                        st = LiveStack::from_stack("fs", dst.fs);
                        st.model = model;
                        ctx.cover("op:clone_from");
                    }
                }
            }
            16 | 17 => {
                let n = *ctx.rng.pick(&[0usize, 1, 9, 1000]);
                let fs = &mut st.fs;
                match panics::catch(|| fs.reserve(n)) {
                    Ok(()) => {
                        ctx.log(format!("fs.reserve({n})"));
                        ctx.cover("op:reserve");
                    }
                    Err(p) => {
                        ctx.fail_panic("reserve", &p);
                        ok = false;
                    }
                }
            }
            _ => {
                let k = ctx.rng.range(0, 4);
                let vals: Vec<E::V> = (0..k).map(|_| pool[ctx.rng.below(pool.len())].clone()).collect();
                let fs = &mut st.fs;
                if let Err(p) = panics::catch(|| E::fs_reserve_items(fs, &vals)) {
                    ctx.fail_panic("reserve_items", &p);
                    ok = false;
                }
            }
        }
        if !ok {
            break;
        }
        if st.model.len() >= 2 {
            ctx.nontrivial = true;
        }
        let full = !long || op % 128 == 127 || op + 1 == nops;
        if !sweep(ctx, &st, full) {
            break;
        }
        if !long || op % 64 == 0 {
            if !oob(ctx, &st) {
                break;
            }
        }
        if st.model.len() >= 100 {
            ctx.cover(&format!("big:{}", S::KIND));
        }
        if S::KIND == "optimized" && st.model.len() >= 3 {
            let mut idx_used = 0usize;
            let mut region_used = 0usize;
            if E::can_heap() {
                st.fs.heap_size(|u, _| idx_used += u);
                let _ = &mut region_used;
                if E::label() == "mirror<usize>" && idx_used > 0 {
                    ctx.cover("optimized:spilled");
                }
            }
        }
    }
    ctx.cover(&format!("stack:{}:{}", E::label(), S::KIND));
    ctx.count("stack_ops", nops as u64);
    ctx.end_history();
}
