//! C11 — CollapseSequence collapses exactly consecutive equal items, nothing else.

use super::util::*;
use super::{entry_jobs, Plan, PropDef};
use crate::check::Lvl;
use crate::driver::{Ctx, Job, Tier};
use crate::entry::{Entry, Idx};
use crate::live::Live;
use crate::panics;
use crate::val::{Dom, Kind, Same, Val};
use flatcontainer::Region;

pub const DEF: PropDef = PropDef {
    id: "C11",
    jobs,
    required,
    rule: "one case = one push sequence over a small value domain (runs, alternations, NaN-like never-equal values) on an entry that contains a collapsing region, split by clear / merge_regions / clone / serde copies. Top-level collapsing entries: a push equal (by the crate's own PartialEq) to the immediately preceding push must return the previous index and leave the summed used bytes unchanged; any other push must return an index that reads the pushed item; nothing collapses across clear or merge_regions; clone and serde copies continue exactly like the original. Collapsing nodes below the top (inside tuples, options, results) are checked through the returned index components; collapsing nodes inside slices and columns through their storage growth (pushing k copies of the previous element may only grow the index entries). Bounded-exhaustive: all sequences of length <= L over {a, b, a in another form, clear}. Non-trivial = at least one collapse hit and one miss after a hit; distinct = distinct hash of (entry, operation list).",
    assumptions: &["equality is the crate's PartialEq between the pushed form and the stored read item (NaN never collapses, 0.0 collapses with -0.0)"],
};

fn has_collapse(d: &crate::registry::Dyn) -> bool {
    d.flags.collapse_top || d.flags.collapse_nodes > 0 || d.label.contains("collapse")
}

fn ex_len(t: Tier) -> u64 {
    t.pick(7, 9, 3)
}

fn jobs(plan: &Plan) -> Vec<Job> {
    let t = plan.tier;
    let mut v = entry_jobs(plan, "C11", "sequence", t.pick(200, 5000, 1), has_collapse);
    v.extend(entry_jobs(plan, "C11", "exhaustive", 1, |d| d.flags.collapse_top));
    use crate::catalogue::{EColumnsCollapsePairsString, ESliceCollapsePairsString, ESliceCollapseString};
    for h in 0..t.pick(30, 1000, 1) {
        v.push(super::standalone("slice<collapse<string>>", "nested-growth", h, nested_growth::<ESliceCollapseString>));
        v.push(super::standalone("slice<collapse<pairs<string>>,optimized>", "nested-growth", h, nested_growth::<ESliceCollapsePairsString>));
        v.push(super::standalone("columns<collapse<pairs<string>>>", "nested-growth", h, nested_growth::<EColumnsCollapsePairsString>));
    }
    v
}

fn required(plan: &Plan) -> Vec<String> {
    if plan.tier == Tier::Miri {
        return vec![];
    }
    let mut v = Vec::new();
    for d in plan.reg.iter().filter(|d| d.flags.collapse_top) {
        for k in ["hit", "miss-after-hit", "equal-after-clear", "equal-after-merge", "exhaustive"] {
            v.push(format!("{k}:{}", d.label));
        }
        if d.flags.clone {
            v.push(format!("clone-split:{}", d.label));
        }
        if d.flags.serde {
            v.push(format!("serde-split:{}", d.label));
        }
    }
    for d in plan.reg.iter().filter(|d| !d.flags.collapse_top && d.flags.collapse_nodes > 0) {
        v.push(format!("nested-walk:{}", d.label));
    }
    v.push("nested-growth:observed".into());
    v.push("equal-after-reservation".into());
    v
}

pub fn run<E: Entry>(ctx: &mut Ctx) {
    match ctx.what.as_str() {
        "exhaustive" => exhaustive::<E>(ctx),
        _ => sequence::<E>(ctx),
    }
}

struct Collapsing<E: Entry> {
    live: Live<E>,
    /// the value of the immediately preceding push since creation / clear / merge
    last: Option<(E::V, Idx<E>)>,
    had_hit: bool,
}

impl<E: Entry> Collapsing<E> {
    fn new(live: Live<E>) -> Self {
        Collapsing { live, last: None, had_hit: false }
    }
    /// The first push after creation / clear / merge_regions can collapse into nothing: it must
    /// store the item (used bytes grow by at least what the model says this one item needs).
    fn push_first(&mut self, ctx: &mut Ctx, v: &E::V, form: usize, after: &str) -> bool {
        let before = self.live.heap();
        if !self.push(ctx, v, form) {
            return false;
        }
        // string payload of this one item (headers, offsets and index entries excluded: columns
        // and seed offsets may legitimately be there already): doubling every string doubles it
        let doubled = E::scale(v, 2);
        let need = match (E::min_used(&[v]), E::min_used(&[&doubled])) {
            (Some(one), Some(two)) => Some(two.saturating_sub(one)),
            _ => None,
        };
        if let (Some(b), Some(a), Some(need)) = (before, self.live.heap(), need) {
            ctx.count("first_pushes_checked", 1);
            if a.used < b.used + need {
                ctx.fail(
                    "collapsed-across-boundary",
                    format!(
                        "the first push after {after} ({}) grew the used bytes from {} to {}, but storing its strings needs at least {need}: it was collapsed into something that was there before",
                        v.render(), b.used, a.used
                    ),
                );
                return false;
            }
        }
        true
    }
    /// Pushes and applies the collapse oracle. Returns false on violation.
    fn push(&mut self, ctx: &mut Ctx, v: &E::V, form: usize) -> bool {
        let before = self.live.heap();
        let Some(idx) = self.live.push(ctx, v, form) else { return false };
        let k = self.live.issued.len() - 1;
        if E::collapse_top() {
            match &self.last {
                Some((lv, li)) if lv.peq(v) => {
                    ctx.cover(&format!("hit:{}", E::label()));
                    self.had_hit = true;
                    if !E::idx_same(li, &idx) {
                        ctx.fail(
                            "equal-not-collapsed",
                            format!("pushing {} right after an equal item returned index {} instead of the previous index {}", v.render(), E::idx_render(&idx), E::idx_render(li)),
                        );
                        return false;
                    }
                    if let (Some(b), Some(a)) = (before, self.live.heap()) {
                        if a.used != b.used {
                            ctx.fail("collapsed-push-stored", format!("pushing {} right after an equal item grew the used bytes from {} to {}", v.render(), b.used, a.used));
                            return false;
                        }
                    }
                }
                _ => {
                    if self.had_hit {
                        ctx.cover(&format!("miss-after-hit:{}", E::label()));
                        ctx.nontrivial = true;
                    }
                }
            }
        }
        // whatever happened, the returned index reads the pushed item, and so do all older ones
        if !self.live.check_one(ctx, k, Lvl::BASIC, "collapse-reads") {
            return false;
        }
        self.last = Some((v.clone(), idx));
        true
    }
    fn walk(&self, ctx: &mut Ctx) -> bool {
        let seq: Vec<(&E::V, Idx<E>)> = self.live.issued.iter().map(|(i, v)| (v, *i)).collect();
        match E::walk(&seq, crate::model::Walk::Collapse) {
            Ok(()) => true,
            Err(e) => {
                ctx.fail("nested-collapse", format!("{}: {e}", self.live.tag));
                false
            }
        }
    }
}

fn sequence<E: Entry>(ctx: &mut Ctx) {
    let h = ctx.hist_no;
    // tiny domains so that runs and alternations abound
    let kind = if h % 4 == 3 { Kind::Hostile } else { Kind::Tiny };
    let mut pool: Vec<E::V> = (0..4).map(|_| <E::V as Val>::gen(&mut ctx.rng, Dom::new(kind).json())).collect();
    let nforms = Live::<E>::nforms();
    let mut c = Collapsing::<E>::new(Live::new("r"));
    let nops = ctx.rng.range(3, if ctx.tier == Tier::Miri { 10 } else { 60 });
    let (cn, _) = E::walk_nodes();
    for _ in 0..nops {
        let choice = ctx.rng.below(40);
        let prev = c.last.as_ref().map(|x| x.0.clone());
        match choice {
            0 => {
                // clear, then (often) the same item again
                let before = prev.clone();
                if !c.live.clear(ctx) {
                    break;
                }
                c.last = None;
                if let Some(p) = before {
                    if !{ let f__ = ctx.rng.below(nforms); c.push_first(ctx, &p, f__, "clear()") } {
                        break;
                    }
                    if E::collapse_top() {
                        ctx.cover(&format!("equal-after-clear:{}", E::label()));
                    }
                }
            }
            1 => {
                // continue in a region merged from the current one; first push equals its last item
                let absorbed: Vec<E::V> = c.live.issued.iter().map(|x| x.1.clone()).collect();
                let Some(m) = merged::<E>(ctx, "r", &[&c.live.r]) else { break };
                let before = prev.clone();
                c = Collapsing::new(m);
                if E::coded() {
                    // a coded region is only bound to accept what its source absorbed
                    if absorbed.is_empty() {
                        break;
                    }
                    pool = absorbed;
                }
                if let Some(p) = before {
                    if !{ let f__ = ctx.rng.below(nforms); c.push_first(ctx, &p, f__, "merge_regions") } {
                        break;
                    }
                    if E::collapse_top() {
                        ctx.cover(&format!("equal-after-merge:{}", E::label()));
                    }
                }
            }
            2 => {
                // continue on a copy (clone, or clone_from into a region with unrelated contents);
                // the original is kept and re-read afterwards
                let copy = if ctx.rng.chance(1, 2) {
                    E::clone_r(&c.live.r).map(|r| {
                        ctx.log("r = r.clone()".into());
                        r
                    })
                } else if E::can_clone() {
                    let mut dst = Live::<E>::new("dst");
                    let mut ok = true;
                    for _ in 0..ctx.rng.below(5) {
                        let v = pool[ctx.rng.below(pool.len())].clone();
                        if dst.push(ctx, &v, 0).is_none() {
                            ok = false;
                            break;
                        }
                    }
                    if !ok {
                        break;
                    }
                    E::clone_from_r(&mut dst.r, &c.live.r);
                    ctx.log("dst.clone_from(&r); r = dst".into());
                    Some(dst.r)
                } else {
                    None
                };
                if let Some(r2) = copy {
                    let issued = c.live.issued.clone();
                    let last = c.last.clone();
                    let had = c.had_hit;
                    let orig = std::mem::replace(&mut c.live, Live::from_region("r", r2));
                    c.live.issued = issued;
                    c.last = last;
                    c.had_hit = had;
                    if !c.live.check_all(ctx, Lvl::BASIC, "collapse-copy-reads") {
                        break;
                    }
                    if let Some(p) = prev.clone() {
                        if !{ let f__ = ctx.rng.below(nforms); c.push(ctx, &p, f__) } {
                            break;
                        }
                    }
                    // a different item right after the copy must not collapse into anything
                    let v = draw::<E>(ctx, &pool, None);
                    if !{ let f__ = ctx.rng.below(nforms); c.push(ctx, &v, f__) } {
                        break;
                    }
                    if !orig.check_all(ctx, Lvl::BASIC, "collapse-clone-original") {
                        break;
                    }
                    if E::collapse_top() {
                        ctx.cover(&format!("clone-split:{}", E::label()));
                    }
                }
            }
            3 => {
                if E::json_lossless() {
                    if let Some(Ok(s)) = E::to_json(&c.live.r) {
                        match E::from_json(&s) {
                            Some(Ok(r2)) => {
                                ctx.log("r = from_json(to_json(r))".into());
                                let issued = c.live.issued.clone();
                                c.live = {
                                    let mut l = Live::from_region("r", r2);
                                    l.issued = issued;
                                    l
                                };
                                if let Some(p) = prev.clone() {
                                    if !{ let f__ = ctx.rng.below(nforms); c.push(ctx, &p, f__) } {
                                        break;
                                    }
                                }
                                if E::collapse_top() {
                                    ctx.cover(&format!("serde-split:{}", E::label()));
                                }
                            }
                            Some(Err(e)) => {
                                ctx.fail("serde-error", format!("deserialising the region's own serialisation failed: {e}"));
                                break;
                            }
                            None => {}
                        }
                    }
                }
            }
            4 | 5 => {
                // reservations are not pushes: the item pushed next still has the same predecessor
                let k = ctx.rng.below(4);
                let vals: Vec<E::V> = (0..k).map(|_| pool[ctx.rng.below(pool.len())].clone()).collect();
                let mut ok = true;
                if E::can_reserve_items() && ctx.rng.chance(1, 2) {
                    ok = reserve_items(ctx, &mut c.live, &vals);
                }
                if ok && E::can_reserve_regions() {
                    if let Some(src) = source_region::<E>(&vals) {
                        let own = if ctx.rng.chance(1, 2) { E::clone_r(&c.live.r) } else { None };
                        let mut sources: Vec<&E::R> = vec![&src];
                        if let Some(o) = &own {
                            sources.push(o);
                        }
                        ok = reserve_regions(ctx, &mut c.live, &sources);
                    }
                }
                if !ok {
                    break;
                }
                if let Some(p) = prev.clone() {
                    if !{ let f__ = ctx.rng.below(nforms); c.push(ctx, &p, f__) } {
                        break;
                    }
                    if E::collapse_top() {
                        ctx.cover("equal-after-reservation");
                    }
                }
            }
            _ => {
                let v = draw::<E>(ctx, &pool, prev.as_ref());
                if !{ let f__ = ctx.rng.below(nforms); c.push(ctx, &v, f__) } {
                    break;
                }
            }
        }
        if !c.live.check_all(ctx, Lvl::BASIC, "collapse-reads") {
            break;
        }
        if cn > 0 && !c.walk(ctx) {
            break;
        }
    }
    if cn > 0 && !E::collapse_top() {
        ctx.cover(&format!("nested-walk:{}", E::label()));
        ctx.nontrivial = ctx.nontrivial || c.live.issued.len() > 2;
    }
    ctx.end_history();
}

/// All sequences of length <= L over {a, b, a in another form, clear}.
fn exhaustive<E: Entry>(ctx: &mut Ctx) {
    let letters = three_values::<E>("c11");
    let nforms = Live::<E>::nforms();
    let alt_form = if nforms > 1 { 1 } else { 0 };
    let maxlen = ex_len(ctx.tier) as u32;
    for len in 1..=maxlen {
        for code in 0..4u64.pow(len) {
            let mut c = Collapsing::<E>::new(Live::new("r"));
            let mut x = code;
            for _ in 0..len {
                let l = x % 4;
                x /= 4;
                let ok = match l {
                    0 => c.push(ctx, &letters[0], 0),
                    1 => c.push(ctx, &letters[1], 0),
                    2 => c.push(ctx, &letters[0], alt_form),
                    _ => {
                        let ok = c.live.clear(ctx);
                        c.last = None;
                        ok
                    }
                };
                if !ok || !c.live.check_all(ctx, Lvl::BASIC, "collapse-reads") {
                    break;
                }
            }
            ctx.nontrivial = c.had_hit;
            ctx.count("exhaustive_sequences", 1);
            ctx.end_history();
        }
    }
    ctx.cover(&format!("exhaustive:{}", E::label()));
}

/// Collapsing nodes inside slices / columns: pushing an item made of w copies of the element
/// stored last may only grow the index entries, never store the payload again.
fn nested_growth<E: Entry<V = Vec<String>>>(ctx: &mut Ctx) {
    let mut live = Live::<E>::new("r");
    let nforms = Live::<E>::nforms();
    for _ in 0..ctx.rng.range(0, 4) {
        let v = <E::V as Val>::gen(&mut ctx.rng, Dom::new(Kind::Tiny));
        if { let f__ = ctx.rng.below(nforms); live.push(ctx, &v, f__) }.is_none() {
            ctx.end_history();
            return;
        }
    }
    let w = ctx.rng.range(1, 6);
    let s: String = "payload-€-".repeat(ctx.rng.range(8, 20));
    let u: Vec<String> = vec![s.clone(); w];
    if { let f__ = ctx.rng.below(nforms); live.push(ctx, &u, f__) }.is_none() {
        ctx.end_history();
        return;
    }
    let before = live.heap().unwrap();
    if { let f__ = ctx.rng.below(nforms); live.push(ctx, &u, f__) }.is_none() {
        ctx.end_history();
        return;
    }
    let after = live.heap().unwrap();
    let grew = after.used.saturating_sub(before.used);
    // at most one (usize, usize) index entry per element plus one offset may be added; the
    // budget is generous (2.5x) so that an inaccuracy of heap_size itself (C18's business) is
    // not reported here - the payload is 100-200 bytes per element, far above it
    let index_budget = w * 40 + 64;
    if grew > index_budget {
        ctx.fail(
            "nested-collapsed-push-stored",
            format!(
                "pushing an item of {w} copies of the {}-byte element stored last grew the used bytes by {grew}; index entries account for at most {index_budget}",
                s.len()
            ),
        );
    }
    if live.check_all(ctx, Lvl::BASIC, "collapse-reads") {
        ctx.cover("nested-growth:observed");
        ctx.count("nested_growth_cases", 1);
    }
    ctx.nontrivial = true;
    ctx.end_history();
}
