//! C09 — clone and clone_from yield equal, fully independent regions.

use super::c02::LiveStack;
use super::util::*;
use super::{entry_jobs, stack_jobs, Plan, PropDef};
use crate::check::Lvl;
use crate::driver::{Ctx, Job, Tier};
use crate::entry::{Entry, Idx, IdxC, Stack};
use crate::live::Live;
use crate::panics;
use crate::val::{Dom, Kind, Same, Val};

pub const DEF: PropDef = PropDef {
    id: "C09",
    jobs,
    required,
    rule: "one case = history H1 on region a (Default or trained via merge_regions); b = a.clone(); c pre-filled by an unrelated history H0 (longer / shorter / wider / cleared) then c.clone_from(&a). b and c must read like a at every issued index; the same pushes H4 applied to a, b and c must return identical indices and reads; then divergent histories (pushes and clears) on a versus b and c in lock-step: b and c must keep agreeing with each other, and no operation on one side may change what the other side reads. Same for FlatStack with every admissible index container. Non-trivial = H1 non-empty and at least one post-clone operation; distinct = distinct hash of (entry, operation list).",
    assumptions: &["entries that do not implement Clone (regions over DictionaryCodec) are not exercised"],
};

fn jobs(plan: &Plan) -> Vec<Job> {
    let t = plan.tier;
    let mut v = entry_jobs(plan, "C09", "clone", t.pick(40, 600, 1), |d| d.flags.clone);
    v.extend(stack_jobs(plan, "C09", "stack-clone", t.pick(18, 180, 0), |d| d.flags.clone));
    v.extend(entry_jobs(plan, "C09", "chain", t.pick(32, 300, 1), |d| super::chain::eligible(d, super::chain::Fin::Copy)));
    v.extend(stack_jobs(plan, "C09", "stack-chain", t.pick(6, 50, 0), |d| super::chain::eligible_stack(d, super::chain::Fin::Copy)));
    v
}

fn required(plan: &Plan) -> Vec<String> {
    if plan.tier == Tier::Miri {
        return vec![];
    }
    let mut v = Vec::new();
    for d in plan.reg.iter().filter(|d| d.flags.clone) {
        v.push(format!("clone_from-nonempty:{}", d.label));
        v.push(format!("stack-clone:{}", d.label));
    }
    v.push("clone_from:dst-merged".into());
    v.push("stack-clone:merged-source".into());
    v.push("stack-clone:merged-source-left-empty".into());
    v.push("clone_from:dst-more-columns".into());
    v.push("clone_from:dst-fewer-columns".into());
    for d in plan.reg {
        if super::chain::eligible(d, super::chain::Fin::Copy) {
            v.push(format!("chain:{}", d.label));
        }
        if super::chain::eligible_stack(d, super::chain::Fin::Copy) {
            v.push(format!("stack-chain:{}", d.label));
        }
    }
    v.push("next-generation".into());
    v.extend(super::chain::required_pairs(super::chain::Fin::Copy));
    v
}

pub fn run<E: Entry>(ctx: &mut Ctx) {
    if ctx.what == "chain" {
        return super::chain::run::<E>(ctx, super::chain::Fin::Copy, "clone-chain");
    }
    let h = ctx.hist_no;
    let kind = kind_for(h);
    let n1 = ctx.rng.range(1, if ctx.tier == Tier::Miri { 5 } else { 24 });
    let pool: Vec<E::V> = <E::V as Val>::gen_run(&mut ctx.rng, Dom::new(kind), n1 + 6);
    let trained = (h / 3) % 2 == 1;
    let a = if trained { Live::<E>::trained("a", ctx, &pool) } else { Some(Live::<E>::new("a")) };
    let Some(mut a) = a else {
        ctx.nontrivial = true;
        ctx.end_history();
        return;
    };
    let nforms = Live::<E>::nforms();
    let mut last: Option<E::V> = None;
    let mut ok = true;
    for _ in 0..n1 {
        let v = draw::<E>(ctx, &pool, last.as_ref());
        if { let f__ = ctx.rng.below(nforms); a.push(ctx, &v, f__) }.is_none() {
            ok = false;
            break;
        }
        last = Some(v);
    }
    if !ok {
        ctx.end_history();
        return;
    }
    // b = clone
    let Some(rb) = E::clone_r(&a.r) else {
        ctx.end_history();
        return;
    };
    ctx.log("b = a.clone()".into());
    let mut b = Live::<E>::from_region("b", rb);
    b.issued = a.issued.clone();
    // c = unrelated contents, then clone_from
    let n0 = *ctx.rng.pick(&[0usize, 1, 3, n1 + 5, 2 * n1 + 1]);
    let dom0 = Dom::new(if ctx.rng.chance(1, 2) { Kind::Long } else { Kind::Hostile });
    let pool0: Vec<E::V> = <E::V as Val>::gen_run(&mut ctx.rng, dom0, n0.max(1));
    // the destination is a default region or itself the product of merge_regions (for coded
    // regions: an encoded container / trained codec with another code)
    let mut c = if (h / 6) % 2 == 1 {
        match Live::<E>::trained("c", ctx, &pool0) {
            Some(c) => {
                ctx.cover("clone_from:dst-merged");
                c
            }
            None => {
                ctx.end_history();
                return;
            }
        }
    } else {
        Live::<E>::new("c")
    };
    for k in 0..n0 {
        if c.push(ctx, &pool0[k % pool0.len()], 0).is_none() {
            ctx.end_history();
            return;
        }
    }
    if n0 > 0 && ctx.rng.chance(1, 5) {
        if !c.clear(ctx) {
            ctx.end_history();
            return;
        }
    }
    if n0 > 0 {
        ctx.cover(&format!("clone_from-nonempty:{}", E::label()));
        if E::label().starts_with("columns") {
            let wa = a.issued.iter().map(|(_, v)| v.width()).max().unwrap_or(0);
            let wc = pool0.iter().take(n0).map(|v| v.width()).max().unwrap_or(0);
            if wc > wa {
                ctx.cover("clone_from:dst-more-columns");
            }
            if wc < wa {
                ctx.cover("clone_from:dst-fewer-columns");
            }
        }
    }
    {
        let dst = &mut c.r;
        let src = &a.r;
        if let Err(p) = panics::catch(|| E::clone_from_r(dst, src)) {
            ctx.log("c.clone_from(&a) PANICKED".into());
            ctx.fail_panic("clone_from", &p);
            ctx.end_history();
            return;
        }
    }
    ctx.log("c.clone_from(&a)".into());
    c.issued = a.issued.clone();
    // copies read like the original
    if !b.check_all(ctx, Lvl::BASIC, "clone-reads") || !c.check_all(ctx, Lvl::BASIC, "clone_from-reads") {
        ctx.end_history();
        return;
    }
    // identical continuation on all three
    let n4 = ctx.rng.range(1, 6);
    for k in 0..n4 {
        let v = if k == 0 && last.is_some() { last.clone().unwrap() } else { draw::<E>(ctx, &pool, last.as_ref()) };
        let form = ctx.rng.below(nforms);
        let ia = a.push(ctx, &v, form);
        let ib = b.push(ctx, &v, form);
        let ic = c.push(ctx, &v, form);
        let (Some(ia), Some(ib), Some(ic)) = (ia, ib, ic) else {
            ctx.end_history();
            return;
        };
        ctx.nontrivial = true;
        if !E::idx_same(&ia, &ib) {
            ctx.fail("clone-continuation", format!("pushing {} returned {} on the original but {} on its clone", v.render(), E::idx_render(&ia), E::idx_render(&ib)));
            ctx.end_history();
            return;
        }
        if !E::idx_same(&ia, &ic) {
            ctx.fail("clone_from-continuation", format!("pushing {} returned {} on the original but {} on the clone_from copy", v.render(), E::idx_render(&ia), E::idx_render(&ic)));
            ctx.end_history();
            return;
        }
        last = Some(v);
    }
    if !a.check_all(ctx, Lvl::BASIC, "clone-reads") || !b.check_all(ctx, Lvl::BASIC, "clone-reads") || !c.check_all(ctx, Lvl::BASIC, "clone_from-reads") {
        ctx.end_history();
        return;
    }
    // the next generation built from a clone and from a clone_from copy must not differ either
    // (statistics of coded regions are state that only merge_regions consults)
    if !next_generation::<E>(ctx, &b, &c, "clone_from-vs-clone", "regions merged from the clone / from the clone_from copy") {
        ctx.end_history();
        return;
    }
    // divergence: a gets H2, b and c get H3 in lock-step
    let steps = ctx.rng.range(1, 10);
    for _ in 0..steps {
        // side a
        if ctx.rng.chance(1, 8) {
            if !a.clear(ctx) {
                break;
            }
        } else {
            let v = draw::<E>(ctx, &pool, None);
            if { let f__ = ctx.rng.below(nforms); a.push(ctx, &v, f__) }.is_none() {
                break;
            }
        }
        if !b.check_all(ctx, Lvl::BASIC, "independence") || !c.check_all(ctx, Lvl::BASIC, "independence") {
            break;
        }
        // side b, c
        if ctx.rng.chance(1, 8) {
            if !b.clear(ctx) || !c.clear(ctx) {
                break;
            }
        } else {
            let v = draw::<E>(ctx, &pool0, None);
            let v = if ctx.rng.chance(1, 2) { v } else { draw::<E>(ctx, &pool, None) };
            // values foreign to a trained (coded) region's statistics may be refused; stay inside
            let v = if E::coded() && trained { draw::<E>(ctx, &pool, None) } else { v };
            let form = ctx.rng.below(nforms);
            if !push_both(ctx, &mut b, &mut c, &v, form, form, "clone_from-vs-clone", "clone vs clone_from copy") {
                break;
            }
        }
        if !a.check_all(ctx, Lvl::BASIC, "independence") {
            break;
        }
        if !b.check_all(ctx, Lvl::BASIC, "clone-reads") || !c.check_all(ctx, Lvl::BASIC, "clone_from-reads") {
            break;
        }
    }
    ctx.end_history();
}

pub fn run_stack<E: Entry, S: IdxC<Idx<E>>>(ctx: &mut Ctx) {
    if ctx.what == "stack-chain" {
        return super::chain::run_stack::<E, S>(ctx, super::chain::Fin::Copy, "stack-clone-chain");
    }
    let kind = kind_for(ctx.hist_no / 3);
    // the original is a default stack, a stack sized (and, for coded regions, trained) by
    // merge_capacity that then receives copies, or such a stack left empty: "empty" does not
    // mean "default"
    let mode = (ctx.hist_no / 3 + ctx.hist_no / 9) % 3;
    let n1 = if mode == 2 { 0 } else { ctx.rng.range(1, 30) };
    let pool: Vec<E::V> = <E::V as Val>::gen_run(&mut ctx.rng, Dom::new(kind), n1 + 4);
    let nforms = E::form_names().len();
    let mut a = if mode == 0 {
        ctx.log(format!("a = FlatStack<{}, {}>::default()", E::label(), S::KIND));
        LiveStack::<E, S>::new("a")
    } else {
        let mut src = LiveStack::<E, S>::new("src");
        for v in &pool {
            if !src.copy(ctx, v, 0) {
                ctx.end_history();
                return;
            }
        }
        match panics::catch(|| Stack::<E, S>::merge_capacity(std::iter::once(&src.fs))) {
            Ok(fs) => {
                ctx.log("a = FlatStack::merge_capacity([src])".into());
                ctx.cover(if mode == 2 { "stack-clone:merged-source-left-empty" } else { "stack-clone:merged-source" });
                LiveStack::from_stack("a", fs)
            }
            Err(p) => {
                ctx.fail_panic("merge_capacity", &p);
                ctx.end_history();
                return;
            }
        }
    };
    for k in 0..n1 {
        if !{ let f__ = ctx.rng.below(nforms); a.copy(ctx, &pool[k % pool.len()], f__) } {
            ctx.end_history();
            return;
        }
    }
    let Some(fb) = E::fs_clone(&a.fs) else {
        ctx.end_history();
        return;
    };
    ctx.log("b = a.clone()".into());
    let mut b = LiveStack::<E, S>::from_stack("b", fb);
    b.model = a.model.clone();
    let mut c = LiveStack::<E, S>::new("c");
    let n0 = *ctx.rng.pick(&[0usize, 2, n1 + 7]);
    for k in 0..n0 {
        if !c.copy(ctx, &pool[(k * 5 + 1) % pool.len()], 0) {
            ctx.end_history();
            return;
        }
    }
    {
        let dst = &mut c.fs;
        let src = &a.fs;
        if let Err(p) = panics::catch(|| E::fs_clone_from(dst, src)) {
            ctx.fail_panic("stack-clone_from", &p);
            ctx.end_history();
            return;
        }
    }
    ctx.log("c.clone_from(&a)".into());
    c.model = a.model.clone();
    let mut ok = b.check_all_get(ctx, Lvl::BASIC, "stack-clone-reads") && c.check_all_get(ctx, Lvl::BASIC, "stack-clone_from-reads");
    if ok && (b.fs.len() != a.fs.len() || c.fs.len() != a.fs.len()) {
        ctx.fail("stack-clone-len", format!("len: original {}, clone {}, clone_from copy {}", a.fs.len(), b.fs.len(), c.fs.len()));
        ok = false;
    }
    let steps = ctx.rng.range(1, 8);
    for _ in 0..steps {
        if !ok {
            break;
        }
        ctx.nontrivial = true;
        let v = pool[ctx.rng.below(pool.len())].clone();
        let form = ctx.rng.below(nforms);
        if ctx.rng.chance(1, 2) {
            ok = a.copy(ctx, &v, form);
        } else if ctx.rng.chance(1, 6) {
            b.fs.clear();
            b.model.clear();
            c.fs.clear();
            c.model.clear();
            ctx.log("b.clear(); c.clear()".into());
        } else {
            ok = b.copy(ctx, &v, form) && c.copy(ctx, &v, form);
        }
        ok = ok
            && a.check_all_get(ctx, Lvl::BASIC, "stack-independence")
            && b.check_all_get(ctx, Lvl::BASIC, "stack-independence")
            && c.check_all_get(ctx, Lvl::BASIC, "stack-independence");
        if ok && (a.fs.len() != a.model.len() || b.fs.len() != b.model.len() || c.fs.len() != c.model.len()) {
            ctx.fail("stack-clone-len", "len disagrees with the copied values after divergence".into());
            ok = false;
        }
    }
    // both copies answer the same further copies identically - also when the answer is a
    // refusal (values foreign to a trained coded region)
    if ok {
        let foreign: Vec<E::V> = <E::V as Val>::gen_run(&mut ctx.rng, Dom::new(crate::val::Kind::Hostile), 3);
        for v in &foreign {
            let rb = {
                let (fs, aux) = (&mut b.fs, &mut b.aux);
                panics::catch(|| E::fs_copy(fs, v, 0, aux)).is_ok()
            };
            let rc = {
                let (fs, aux) = (&mut c.fs, &mut c.aux);
                panics::catch(|| E::fs_copy(fs, v, 0, aux)).is_ok()
            };
            ctx.log(format!("b.copy({0}) {1}; c.copy({0}) {2}", v.render(), if rb { "accepted" } else { "refused" }, if rc { "accepted" } else { "refused" }));
            if rb != rc {
                ctx.fail(
                    "stack-clone_from-vs-clone",
                    format!("copying {} was {} by the clone but {} by the clone_from copy", v.render(), if rb { "accepted" } else { "refused" }, if rc { "accepted" } else { "refused" }),
                );
                break;
            }
            if !rb {
                break;
            }
            b.model.push(v.clone());
            c.model.push(v.clone());
            if !b.check_all_get(ctx, Lvl::BASIC, "stack-independence") || !c.check_all_get(ctx, Lvl::BASIC, "stack-independence") {
                break;
            }
        }
    }
    ctx.cover(&format!("stack-clone:{}", E::label()));
    ctx.end_history();
}
