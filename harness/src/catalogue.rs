//! The typed catalogue of region compositions (DESIGN.md section 4).
//!
//! Every entry is type-checked against the current crate at build time. Families of entries
//! that accept the same input forms share a macro.

#![allow(clippy::all)]

use crate::codecs::LearningCodec;
use crate::entry;
use flatcontainer::impls::codec::{CodecRegion, DictionaryCodec};
use flatcontainer::impls::deduplicate::{CollapseSequence, ConsecutiveIndexPairs};
use flatcontainer::impls::huffman_container::HuffmanContainer;
use flatcontainer::impls::index::{IndexList, IndexOptimized};
use flatcontainer::impls::tuple::*;
use flatcontainer::{
    ColumnsRegion, MirrorRegion, OptionRegion, OwnedRegion, RegionPreference, ResultRegion, SliceRegion, StringRegion,
};
use std::num::Wrapping;
use std::time::Duration;

pub type IL = IndexList<Vec<u32>, Vec<u64>>;
pub type IO = IndexOptimized;
pub type Pairs<R, O = IndexOptimized> = ConsecutiveIndexPairs<R, O>;
pub type Collapse<R> = CollapseSequence<R>;
pub type DictCodec = CodecRegion<DictionaryCodec>;
pub type LearnCodec = CodecRegion<LearningCodec>;

// ------------------------------------------------------------------ strings

/// Regions whose write half accepts the four string forms.
macro_rules! string_entry {
    ($name:ident, $label:expr, $R:ty, clone: $c:tt, serde: $s:tt, model: $m:tt, reserve: $res:tt,
     flags: { $($flag:ident : $fv:expr),* }) => {
        entry! { $name, $label, $R,
            clone: $c, serde: $s, model: $m,
            flags: { stringy: true $(, $flag: $fv)* },
            reserve: $res,
            owned: yes,
            canon: "&String" => |v| v,
            forms: [
                "&str" => |s, v, aux| s.put(v.as_str()),
                "String" => |s, v, aux| s.put(v.clone()),
                "&&str" => |s, v, aux| s.put(&v.as_str()),
                "read-item(region)" => |s, v, aux| { let i = aux.push(v); s.put(aux.index(i)) },
                "read-item(borrowed)" => |s, v, aux| s.put(<&str as IntoOwned>::borrow_as(v)),
            ]
        }
    };
}

string_entry!(EString, "string", StringRegion, clone: yes, serde: yes, model: yes, reserve: [(|v| v), (|v| v.as_str())],
    flags: { structural: true });
string_entry!(EStringDict, "string<codec-dict>", StringRegion<DictCodec>, clone: no, serde: no, model: no, reserve: none,
    flags: { coded: true });
string_entry!(EStringLearn, "string<codec-learn>", StringRegion<LearnCodec>, clone: yes, serde: no, model: no, reserve: none,
    flags: { coded: true });
string_entry!(EPairsString, "pairs<string,optimized>", Pairs<StringRegion, IO>, clone: yes, serde: yes, model: yes, reserve: [(|v| v), (|v| v.as_str())],
    flags: { idx_is_usize: true, dense: true });
string_entry!(EPairsStringVec, "pairs<string,vec>", Pairs<StringRegion, Vec<usize>>, clone: yes, serde: yes, model: yes, reserve: [(|v| v), (|v| v.as_str())],
    flags: { idx_is_usize: true, dense: true });
string_entry!(EPairsStringList, "pairs<string,list>", Pairs<StringRegion, IL>, clone: yes, serde: yes, model: yes, reserve: (|v| v),
    flags: { idx_is_usize: true, dense: true });
string_entry!(EPairsStringDict, "pairs<string<codec-dict>>", Pairs<StringRegion<DictCodec>, IO>, clone: no, serde: no, model: no, reserve: none,
    flags: { idx_is_usize: true, dense: true, coded: true });

string_entry!(EStringPairsOwned, "string<pairs<owned<u8>>>", StringRegion<Pairs<OwnedRegion<u8>, IO>>, clone: yes, serde: yes, model: yes, reserve: (|v| v),
    flags: { idx_is_usize: true, dense: true });

/// Collapsing string regions: `&&str` has no `PartialEq<&str>`, so that form is absent.
macro_rules! collapse_string_entry {
    ($name:ident, $label:expr, $R:ty, clone: $c:tt, serde: $s:tt, model: $m:tt,
     flags: { $($flag:ident : $fv:expr),* }) => {
        entry! { $name, $label, $R,
            clone: $c, serde: $s, model: $m,
            flags: { stringy: true, collapse_top: true $(, $flag: $fv)* },
            reserve: none,
            canon: "&String" => |v| v,
            forms: [
                "&str" => |s, v, aux| s.put(v.as_str()),
                "String" => |s, v, aux| s.put(v.clone()),
                "read-item(region)" => |s, v, aux| { let i = aux.push(v); s.put(aux.index(i)) },
                "read-item(borrowed)" => |s, v, aux| s.put(<&str as IntoOwned>::borrow_as(v)),
            ]
        }
    };
}
collapse_string_entry!(ECollapseString, "collapse<string>", Collapse<StringRegion>, clone: yes, serde: yes, model: yes, flags: {});
collapse_string_entry!(ECollapsePairsString, "collapse<pairs<string,optimized>>", Collapse<Pairs<StringRegion, IO>>, clone: yes, serde: yes, model: yes,
    flags: { idx_is_usize: true });
collapse_string_entry!(ECollapsePairsStringList, "collapse<pairs<string,list>>", Collapse<Pairs<StringRegion, IL>>, clone: yes, serde: yes, model: yes,
    flags: { idx_is_usize: true });
collapse_string_entry!(ECollapseStringDict, "collapse<string<codec-dict>>", Collapse<StringRegion<DictCodec>>, clone: no, serde: no, model: no,
    flags: { coded: true });

// ------------------------------------------------------------------ owned slices

/// Regions over `OwnedRegion<T>` semantics: value is `Vec<T>`, read item `&[T]`.
macro_rules! owned_entry {
    ($name:ident, $label:expr, $R:ty, $T:ty, clone: $c:tt, serde: $s:tt, model: $m:tt, reserve: $res:tt,
     flags: { $($flag:ident : $fv:expr),* }) => {
        entry! { $name, $label, $R,
            clone: $c, serde: $s, model: $m,
            flags: { $($flag: $fv),* },
            reserve: $res,
            owned: yes,
            canon: "&Vec" => |v| v,
            forms: [
                "&[T]" => |s, v, aux| s.put(v.as_slice()),
                "Vec" => |s, v, aux| s.put(v.clone()),
                "&&[T]" => |s, v, aux| s.put(&v.as_slice()),
                "PushIter" => |s, v, aux| s.put(PushIter(v.iter().cloned())),
                "array" => |s, v, aux| match v.len() {
                    0 => s.put(<[$T; 0]>::try_from(v.clone()).ok().unwrap()),
                    1 => s.put(<[$T; 1]>::try_from(v.clone()).ok().unwrap()),
                    2 => s.put(<[$T; 2]>::try_from(v.clone()).ok().unwrap()),
                    3 => s.put(<[$T; 3]>::try_from(v.clone()).ok().unwrap()),
                    _ => s.put(v.as_slice()),
                },
                "&array" => |s, v, aux| match v.len() {
                    0 => s.put(<&[$T; 0]>::try_from(v.as_slice()).unwrap()),
                    1 => s.put(<&[$T; 1]>::try_from(v.as_slice()).unwrap()),
                    2 => s.put(<&[$T; 2]>::try_from(v.as_slice()).unwrap()),
                    5 => s.put(<&[$T; 5]>::try_from(v.as_slice()).unwrap()),
                    _ => s.put(v.as_slice()),
                },
                "&&array" => |s, v, aux| match v.len() {
                    1 => s.put(&<&[$T; 1]>::try_from(v.as_slice()).unwrap()),
                    4 => s.put(&<&[$T; 4]>::try_from(v.as_slice()).unwrap()),
                    _ => s.put(&v.as_slice()),
                },
                "read-item(region)" => |s, v, aux| { let i = aux.push(v); s.put(aux.index(i)) },
            ]
        }
    };
}
owned_entry!(EOwnedU8, "owned<u8>", OwnedRegion<u8>, u8, clone: yes, serde: yes, model: yes, reserve: [(|v| v), (|v| v.as_slice()), (|v| PushIter(v.iter().copied()))],
    flags: { structural: true });
owned_entry!(EOwnedU64, "owned<u64>", OwnedRegion<u64>, u64, clone: yes, serde: yes, model: yes, reserve: [(|v| v), (|v| v.as_slice()), (|v| PushIter(v.iter().copied()))],
    flags: { structural: true });
owned_entry!(EOwnedUnit, "owned<()>", OwnedRegion<()>, (), clone: yes, serde: yes, model: yes, reserve: (|v| v),
    flags: { structural: true });
owned_entry!(EOwnedString, "owned<String>", OwnedRegion<String>, String, clone: yes, serde: yes, model: yes, reserve: (|v| v),
    flags: {});
owned_entry!(EPairsOwnedU8, "pairs<owned<u8>,optimized>", Pairs<OwnedRegion<u8>, IO>, u8, clone: yes, serde: yes, model: yes, reserve: (|v| v),
    flags: { idx_is_usize: true, dense: true });
owned_entry!(EPairsOwnedU8Vec, "pairs<owned<u8>,vec>", Pairs<OwnedRegion<u8>, Vec<usize>>, u8, clone: yes, serde: yes, model: yes, reserve: [(|v| v), (|v| v.as_slice())],
    flags: { idx_is_usize: true, dense: true });
owned_entry!(EPairsOwnedUnit, "pairs<owned<()>,optimized>", Pairs<OwnedRegion<()>, IO>, (), clone: yes, serde: yes, model: yes, reserve: (|v| v),
    flags: { idx_is_usize: true, dense: true });
owned_entry!(EPairsOwnedUnitList, "pairs<owned<()>,list>", Pairs<OwnedRegion<()>, IL>, (), clone: yes, serde: yes, model: yes, reserve: (|v| v),
    flags: { idx_is_usize: true, dense: true });

/// Collapsing byte regions: only forms `T` with `T: PartialEq<&[u8]>`.
macro_rules! collapse_owned_entry {
    ($name:ident, $label:expr, $R:ty, $T:ty, clone: $c:tt, serde: $s:tt, model: $m:tt,
     flags: { $($flag:ident : $fv:expr),* }) => {
        entry! { $name, $label, $R,
            clone: $c, serde: $s, model: $m,
            flags: { collapse_top: true $(, $flag: $fv)* },
            reserve: none,
            canon: "&Vec" => |v| v,
            forms: [
                "&[T]" => |s, v, aux| s.put(v.as_slice()),
                "Vec" => |s, v, aux| s.put(v.clone()),
                "array" => |s, v, aux| match v.len() {
                    0 => s.put(<[$T; 0]>::try_from(v.clone()).ok().unwrap()),
                    2 => s.put(<[$T; 2]>::try_from(v.clone()).ok().unwrap()),
                    _ => s.put(v.as_slice()),
                },
                "&array" => |s, v, aux| match v.len() {
                    1 => s.put(<&[$T; 1]>::try_from(v.as_slice()).unwrap()),
                    3 => s.put(<&[$T; 3]>::try_from(v.as_slice()).unwrap()),
                    _ => s.put(v.as_slice()),
                },
                "read-item(region)" => |s, v, aux| { let i = aux.push(v); s.put(aux.index(i)) },
            ]
        }
    };
}
collapse_owned_entry!(ECollapseOwnedU8, "collapse<owned<u8>>", Collapse<OwnedRegion<u8>>, u8, clone: yes, serde: yes, model: yes, flags: {});
collapse_owned_entry!(ECollapseOwnedUnit, "collapse<owned<()>>", Collapse<OwnedRegion<()>>, (), clone: yes, serde: yes, model: yes, flags: {});
collapse_owned_entry!(ECollapsePairsOwnedU8, "collapse<pairs<owned<u8>,optimized>>", Collapse<Pairs<OwnedRegion<u8>, IO>>, u8, clone: yes, serde: yes, model: yes,
    flags: { idx_is_usize: true });

// ------------------------------------------------------------------ mirrors

macro_rules! mirror_entry {
    ($name:ident, $label:expr, $T:ty, flags: { $($flag:ident : $fv:expr),* }) => {
        entry! { $name, $label, MirrorRegion<$T>,
            clone: yes, serde: yes, model: yes,
            flags: { $($flag: $fv),* },
            reserve: [(|v| v), (|v| *v)],
            owned: yes,
            canon: "&T" => |v| v,
            forms: [
                "T" => |s, v, aux| s.put(*v),
                "&&T" => |s, v, aux| s.put(&v),
                "read-item(region)" => |s, v, aux| { let i = aux.push(v); s.put(aux.index(i)) },
            ]
        }
    };
}
mirror_entry!(EMirrorU8, "mirror<u8>", u8, flags: {});
mirror_entry!(EMirrorU64, "mirror<u64>", u64, flags: {});
mirror_entry!(EMirrorUsize, "mirror<usize>", usize, flags: { idx_is_usize: true });
mirror_entry!(EMirrorI128, "mirror<i128>", i128, flags: {});
mirror_entry!(EMirrorF64, "mirror<f64>", f64, flags: {});
mirror_entry!(EMirrorF32, "mirror<f32>", f32, flags: {});
mirror_entry!(EMirrorChar, "mirror<char>", char, flags: {});
mirror_entry!(EMirrorBool, "mirror<bool>", bool, flags: {});
mirror_entry!(EMirrorUnit, "mirror<()>", (), flags: {});
mirror_entry!(EMirrorDuration, "mirror<Duration>", Duration, flags: {});
mirror_entry!(EMirrorWrapping, "mirror<Wrapping<i64>>", Wrapping<i64>, flags: {});

macro_rules! collapse_mirror_entry {
    ($name:ident, $label:expr, $T:ty) => {
        entry! { $name, $label, Collapse<MirrorRegion<$T>>,
            clone: yes, serde: yes, model: yes,
            flags: { collapse_top: true },
            reserve: none,
            canon: "T" => |v| *v,
            forms: [
                "read-item(region)" => |s, v, aux| { let i = aux.push(*v); s.put(aux.index(i)) },
            ]
        }
    };
}
collapse_mirror_entry!(ECollapseMirrorU8, "collapse<mirror<u8>>", u8);
collapse_mirror_entry!(ECollapseMirrorF64, "collapse<mirror<f64>>", f64);

// ------------------------------------------------------------------ Vec<T> as a region

macro_rules! vec_entry {
    ($name:ident, $label:expr, $T:ty) => {
        entry! { $name, $label, Vec<$T>,
            clone: yes, serde: yes, model: yes,
            flags: { idx_is_usize: true, structural: true },
            reserve: (|v| v),
            owned: yes,
            canon: "&T" => |v| v,
            forms: [
                "T" => |s, v, aux| s.put(v.clone()),
                "&&T" => |s, v, aux| s.put(&v),
                "read-item(region)" => |s, v, aux| { let i = Push::push(aux, v); s.put(Region::index(&*aux, i)) },
            ]
        }
    };
}
vec_entry!(EVecU32, "vec<u32>", u32);
vec_entry!(EVecString, "vec<String>", String);

entry! { ECollapseVecU32, "collapse<vec<u32>>", Collapse<Vec<u32>>,
    clone: yes, serde: yes, model: yes,
    flags: { idx_is_usize: true, collapse_top: true },
    reserve: none,
    canon: "&T" => |v| v,
    forms: [
        "read-item(region)" => |s, v, aux| { let i = Push::push(aux, v); s.put(Region::index(&*aux, i)) },
    ]
}

// ------------------------------------------------------------------ coded byte regions

entry! { ECodecDict, "codec-dict", DictCodec,
    clone: no, serde: no, model: no,
    flags: { coded: true },
    reserve: none,
    canon: "&[u8]" => |v| v.as_slice(),
    forms: [
        "read-item(region)" => |s, v, aux| { let i = aux.push(v.as_slice()); s.put(aux.index(i)) },
    ]
}
entry! { ECodecLearn, "codec-learn", LearnCodec,
    clone: yes, serde: no, model: no,
    flags: { coded: true },
    reserve: none,
    canon: "&[u8]" => |v| v.as_slice(),
    forms: [
        "read-item(region)" => |s, v, aux| { let i = aux.push(v.as_slice()); s.put(aux.index(i)) },
    ]
}
entry! { EPairsCodecLearn, "pairs<codec-learn>", Pairs<LearnCodec, IO>,
    clone: yes, serde: no, model: no,
    flags: { coded: true, idx_is_usize: true, dense: true },
    reserve: none,
    canon: "&[u8]" => |v| v.as_slice(),
    forms: [
        "read-item(region)" => |s, v, aux| { let i = aux.push(v.as_slice()); s.put(aux.index(i)) },
    ]
}

macro_rules! huffman_entry {
    ($name:ident, $label:expr, $R:ty, $B:ty, flags: { $($flag:ident : $fv:expr),* }) => {
        entry! { $name, $label, $R,
            clone: yes, serde: no, model: no,
            flags: { coded: true, can_heap: false, can_reserve_regions: false $(, $flag: $fv)* },
            reserve: none,
            canon: "&Vec" => |v| v,
            forms: [
                "&[B]" => |s, v, aux| s.put(v.as_slice()),
                "Vec" => |s, v, aux| s.put(v.clone()),
                "array" => |s, v, aux| match v.len() {
                    0 => s.put(<[$B; 0]>::try_from(v.clone()).ok().unwrap()),
                    1 => s.put(<[$B; 1]>::try_from(v.clone()).ok().unwrap()),
                    3 => s.put(<[$B; 3]>::try_from(v.clone()).ok().unwrap()),
                    _ => s.put(v.as_slice()),
                },
                "&array" => |s, v, aux| match v.len() {
                    2 => s.put(<&[$B; 2]>::try_from(v.as_slice()).unwrap()),
                    _ => s.put(v.as_slice()),
                },
                "read-item(region)" => |s, v, aux| { let i = aux.push(v); s.put(aux.index(i)) },
                "read-item(borrowed)" => |s, v, aux| s.put(<<$R as Region>::ReadItem<'_> as IntoOwned>::borrow_as(v)),
            ]
        }
    };
}
huffman_entry!(EHuffmanU8, "huffman<u8>", HuffmanContainer<u8>, u8, flags: {});
huffman_entry!(EHuffmanU16, "huffman<u16>", HuffmanContainer<u16>, u16, flags: {});
huffman_entry!(EPairsHuffmanU8, "pairs<huffman<u8>>", Pairs<HuffmanContainer<u8>, IO>, u8, flags: { idx_is_usize: true, dense: true });

entry! { ECollapseHuffmanU8, "collapse<huffman<u8>>", Collapse<HuffmanContainer<u8>>,
    clone: yes, serde: no, model: no,
    flags: { coded: true, can_heap: false, can_reserve_regions: false, collapse_top: true },
    reserve: none,
    canon: "read-item(borrowed)" => |v| <<HuffmanContainer<u8> as flatcontainer::Region>::ReadItem<'_> as flatcontainer::IntoOwned>::borrow_as(v),
    forms: [
        "read-item(region)" => |s, v, aux| { let i = aux.push(<<HuffmanContainer<u8> as Region>::ReadItem<'_> as IntoOwned>::borrow_as(v)); s.put(aux.index(i)) },
    ]
}

// ------------------------------------------------------------------ fan-out

entry! { EOptionString, "option<string>", OptionRegion<StringRegion>,
    clone: yes, serde: yes, model: yes,
    flags: { stringy: true, structural: true },
    reserve: [(|v| v), (|v| v.as_deref()), (|v| v.as_ref())],
    owned: yes,
    canon: "&Option<String>" => |v| v,
    forms: [
        "Option<String>" => |s, v, aux| s.put(v.clone()),
        "Option<&str>" => |s, v, aux| s.put(v.as_deref()),
        "Option<&String>" => |s, v, aux| s.put(v.as_ref()),
        "read-item(region)" => |s, v, aux| { let i = aux.push(v); s.put(aux.index(i)) },
        "read-item(borrowed)" => |s, v, aux| s.put(<Option<&str> as IntoOwned>::borrow_as(v)),
    ]
}
entry! { EOptionMirrorU8, "option<mirror<u8>>", OptionRegion<MirrorRegion<u8>>,
    clone: yes, serde: yes, model: yes,
    flags: {},
    reserve: [(|v| v), (|v| *v)],
    canon: "&Option<u8>" => |v| v,
    forms: [
        "Option<u8>" => |s, v, aux| s.put(*v),
        "Option<&u8>" => |s, v, aux| s.put(v.as_ref()),
        "read-item(region)" => |s, v, aux| { let i = aux.push(v); s.put(aux.index(i)) },
    ]
}
entry! { EOptionVecU32, "option<vec<u32>>", OptionRegion<Vec<u32>>,
    clone: yes, serde: yes, model: yes,
    flags: { structural: true },
    reserve: (|v| v),
    owned: yes,
    canon: "&Option<u32>" => |v| v,
    forms: [
        "Option<u32>" => |s, v, aux| s.put(*v),
        "Option<&u32>" => |s, v, aux| s.put(v.as_ref()),
        "read-item(region)" => |s, v, aux| { let i = aux.push(v); s.put(aux.index(i)) },
    ]
}
entry! { EResultVecVec, "result<vec<u32>,vec<u8>>", ResultRegion<Vec<u32>, Vec<u8>>,
    clone: yes, serde: yes, model: yes,
    flags: { structural: true },
    reserve: (|v| v),
    owned: yes,
    canon: "&Result<u32,u8>" => |v| v,
    forms: [
        "Result<u32,u8>" => |s, v, aux| s.put(*v),
        "Result<&u32,&u8>" => |s, v, aux| s.put(v.as_ref()),
        "read-item(region)" => |s, v, aux| { let i = aux.push(v); s.put(aux.index(i)) },
    ]
}
entry! { EOptionOptionU8, "option<option<mirror<u8>>>", OptionRegion<OptionRegion<MirrorRegion<u8>>>,
    clone: yes, serde: yes, model: yes,
    flags: { json_lossless: false },
    reserve: (|v| v),
    canon: "&Option<Option<u8>>" => |v| v,
    forms: [
        "Option<Option<u8>>" => |s, v, aux| s.put(*v),
        "Option<&Option<u8>>" => |s, v, aux| s.put(v.as_ref()),
        "read-item(region)" => |s, v, aux| { let i = aux.push(v); s.put(aux.index(i)) },
    ]
}
entry! { EOptionCollapseString, "option<collapse<string>>", OptionRegion<Collapse<StringRegion>>,
    clone: yes, serde: yes, model: yes,
    flags: { stringy: true },
    reserve: none,
    canon: "&Option<String>" => |v| v,
    forms: [
        "Option<String>" => |s, v, aux| s.put(v.clone()),
        "Option<&str>" => |s, v, aux| s.put(v.as_deref()),
        "read-item(region)" => |s, v, aux| { let i = aux.push(v); s.put(aux.index(i)) },
    ]
}
entry! { EOptionSliceU8, "option<slice<mirror<u8>>>", OptionRegion<SliceRegion<MirrorRegion<u8>>>,
    clone: yes, serde: yes, model: yes,
    flags: { structural: true },
    reserve: (|v| v),
    owned: yes,
    canon: "&Option<Vec<u8>>" => |v| v,
    forms: [
        "Option<Vec<u8>>" => |s, v, aux| s.put(v.clone()),
        "Option<&Vec<u8>>" => |s, v, aux| s.put(v.as_ref()),
        "Option<&[u8]>" => |s, v, aux| s.put(v.as_deref()),
        "read-item(region)" => |s, v, aux| { let i = aux.push(v); s.put(aux.index(i)) },
        "read-item(borrowed)" => |s, v, aux| s.put(<<OptionRegion<SliceRegion<MirrorRegion<u8>>> as Region>::ReadItem<'_> as IntoOwned>::borrow_as(v)),
    ]
}
entry! { EResultSliceColumns, "result<slice<string>,columns<mirror<u8>>>", ResultRegion<SliceRegion<StringRegion>, ColumnsRegion<MirrorRegion<u8>, IO>>,
    clone: yes, serde: yes, model: yes,
    flags: { stringy: true },
    reserve: none,
    canon: "&Result" => |v| v,
    forms: [
        "Result" => |s, v, aux| s.put(v.clone()),
        "Result<&Vec,&Vec>" => |s, v, aux| s.put(v.as_ref()),
        "Result<&[String],&[u8]>" => |s, v, aux| s.put(v.as_ref().map(|x| x.as_slice()).map_err(|e| e.as_slice())),
        "read-item(region)" => |s, v, aux| { let i = aux.push(v); s.put(aux.index(i)) },
        "read-item(borrowed)" => |s, v, aux| s.put(<<ResultRegion<SliceRegion<StringRegion>, ColumnsRegion<MirrorRegion<u8>, IO>> as Region>::ReadItem<'_> as IntoOwned>::borrow_as(v)),
    ]
}
entry! { ETupleSliceOption, "tuple(slice<mirror<u8>>,option<string>)", TupleABRegion<SliceRegion<MirrorRegion<u8>>, OptionRegion<StringRegion>>,
    clone: yes, serde: yes, model: yes,
    flags: { stringy: true, structural: true },
    reserve: (|v| v),
    owned: yes,
    canon: "&(Vec<u8>,Option<String>)" => |v| v,
    forms: [
        "owned" => |s, v, aux| s.put(v.clone()),
        "(&[u8],Option<&str>)" => |s, v, aux| s.put((v.0.as_slice(), v.1.as_deref())),
        "(&Vec<u8>,&Option<String>)" => |s, v, aux| s.put((&v.0, &v.1)),
        "read-item(region)" => |s, v, aux| { let i = aux.push(v); s.put(aux.index(i)) },
    ]
}
entry! { EResultStringU8, "result<string,mirror<u8>>", ResultRegion<StringRegion, MirrorRegion<u8>>,
    clone: yes, serde: yes, model: yes,
    flags: { stringy: true, structural: true },
    reserve: [(|v| v), (|v| v.as_ref().map(|x| x.as_str()).map_err(|e| *e)), (|v| v.as_ref())],
    owned: yes,
    canon: "&Result" => |v| v,
    forms: [
        "Result" => |s, v, aux| s.put(v.clone()),
        "Result<&String,&u8>" => |s, v, aux| s.put(v.as_ref()),
        "Result<&str,u8>" => |s, v, aux| s.put(v.as_ref().map(|x| x.as_str()).map_err(|e| *e)),
        "read-item(region)" => |s, v, aux| { let i = aux.push(v); s.put(aux.index(i)) },
        "read-item(borrowed)" => |s, v, aux| s.put(<Result<&str, u8> as IntoOwned>::borrow_as(v)),
    ]
}
entry! { EResultOwnedString, "result<owned<u8>,string>", ResultRegion<OwnedRegion<u8>, StringRegion>,
    clone: yes, serde: yes, model: yes,
    flags: { stringy: true, structural: true },
    reserve: (|v| v),
    owned: yes,
    canon: "&Result" => |v| v,
    forms: [
        "Result" => |s, v, aux| s.put(v.clone()),
        "Result<&Vec,&String>" => |s, v, aux| s.put(v.as_ref()),
        "Result<&[u8],&str>" => |s, v, aux| s.put(v.as_ref().map(|x| x.as_slice()).map_err(|e| e.as_str())),
        "read-item(region)" => |s, v, aux| { let i = aux.push(v); s.put(aux.index(i)) },
    ]
}
entry! { EResultCollapse, "result<mirror<u8>,collapse<string>>", ResultRegion<MirrorRegion<u8>, Collapse<StringRegion>>,
    clone: yes, serde: yes, model: yes,
    flags: { stringy: true },
    reserve: none,
    canon: "&Result" => |v| v,
    forms: [
        "Result" => |s, v, aux| s.put(v.clone()),
        "Result<&u8,&str>" => |s, v, aux| s.put(v.as_ref().map_err(|e| e.as_str())),
        "read-item(region)" => |s, v, aux| { let i = aux.push(v); s.put(aux.index(i)) },
    ]
}
entry! { EResultPref, "pref<Result<u8,u16>>", <Result<u8, u16> as RegionPreference>::Region,
    clone: yes, serde: yes, model: yes,
    flags: {},
    reserve: (|v| v),
    canon: "&Result" => |v| v,
    forms: [
        "Result" => |s, v, aux| s.put(*v),
        "read-item(region)" => |s, v, aux| { let i = aux.push(v); s.put(aux.index(i)) },
    ]
}
entry! { ETuple1String, "tuple(string)", TupleARegion<StringRegion>,
    clone: yes, serde: yes, model: yes,
    flags: { stringy: true, structural: true },
    reserve: (|v| v),
    owned: yes,
    canon: "&(String,)" => |v| v,
    forms: [
        "(String,)" => |s, v, aux| s.put(v.clone()),
        "(&str,)" => |s, v, aux| s.put((v.0.as_str(),)),
        "(&String,)" => |s, v, aux| s.put((&v.0,)),
        "read-item(region)" => |s, v, aux| { let i = aux.push(v); s.put(aux.index(i)) },
        "read-item(borrowed)" => |s, v, aux| s.put(<(&str,) as IntoOwned>::borrow_as(v)),
    ]
}
entry! { ETuple2, "tuple(mirror<u8>,string)", TupleABRegion<MirrorRegion<u8>, StringRegion>,
    clone: yes, serde: yes, model: yes,
    flags: { stringy: true, structural: true },
    reserve: [(|v| v), (|v| (v.0, v.1.as_str())), (|v| (&v.0, &v.1))],
    owned: yes,
    canon: "&(u8,String)" => |v| v,
    forms: [
        "(u8,String)" => |s, v, aux| s.put(v.clone()),
        "(&u8,&str)" => |s, v, aux| s.put((&v.0, v.1.as_str())),
        "(u8,&String)" => |s, v, aux| s.put((v.0, &v.1)),
        "read-item(region)" => |s, v, aux| { let i = aux.push(v); s.put(aux.index(i)) },
        "read-item(borrowed)" => |s, v, aux| s.put(<(u8, &str) as IntoOwned>::borrow_as(v)),
    ]
}
entry! { ETuple3Collapse, "tuple(mirror<u64>,collapse<owned<()>>,collapse<string>)",
    TupleABCRegion<MirrorRegion<u64>, Collapse<OwnedRegion<()>>, Collapse<StringRegion>>,
    clone: yes, serde: yes, model: yes,
    flags: { stringy: true },
    reserve: none,
    canon: "&(u64,Vec<()>,String)" => |v| v,
    forms: [
        "(u64,Vec<()>,String)" => |s, v, aux| s.put(v.clone()),
        "(&u64,&[()],&str)" => |s, v, aux| s.put((&v.0, v.1.as_slice(), v.2.as_str())),
        "read-item(region)" => |s, v, aux| { let i = aux.push(v); s.put(aux.index(i)) },
    ]
}
entry! { ETuple12, "tuple12(mirror<u8>..)",
    TupleABCDEFGHIJKLRegion<MirrorRegion<u8>, MirrorRegion<u8>, MirrorRegion<u8>, MirrorRegion<u8>, MirrorRegion<u8>, MirrorRegion<u8>,
        MirrorRegion<u8>, MirrorRegion<u8>, MirrorRegion<u8>, MirrorRegion<u8>, MirrorRegion<u8>, StringRegion>,
    clone: yes, serde: yes, model: yes,
    flags: { stringy: true },
    reserve: (|v| v),
    canon: "&tuple" => |v| v,
    forms: [
        "tuple" => |s, v, aux| s.put(v.clone()),
        "read-item(region)" => |s, v, aux| { let i = aux.push(v); s.put(aux.index(i)) },
    ]
}
entry! { EPrefNested, "pref<((Vec<String>,&[usize]),Option<String>,Result<u8,u16>)>",
    <((Vec<String>, &'static [usize]), Option<String>, Result<u8, u16>) as RegionPreference>::Region,
    clone: yes, serde: yes, model: yes,
    flags: { stringy: true },
    reserve: (|v| v),
    canon: "&owned" => |v| v,
    forms: [
        "owned" => |s, v, aux| s.put(v.clone()),
        "mixed refs" => |s, v, aux| s.put(((&(v.0).0, (v.0).1.as_slice()), v.1.as_deref(), &v.2)),
        "read-item(region)" => |s, v, aux| { let i = aux.push(v); s.put(aux.index(i)) },
    ]
}

// ------------------------------------------------------------------ slices and columns

/// `SliceRegion<X, O>`: value `Vec<XV>`. `$own` says whether X accepts its owned value by
/// value (`Push<XV>`), which the `Vec<XV>` form needs.
macro_rules! slice_entry {
    ($name:ident, $label:expr, $R:ty, clone: $c:tt, serde: $s:tt, model: $m:tt, reserve: $res:tt,
     flags: { $($flag:ident : $fv:expr),* }) => {
        entry! { $name, $label, $R,
            clone: $c, serde: $s, model: $m,
            flags: { $($flag: $fv),* },
            reserve: $res,
            owned: yes,
            canon: "&Vec<X>" => |v| v,
            forms: [
                "&[X]" => |s, v, aux| s.put(v.as_slice()),
                "Vec<X>" => |s, v, aux| s.put(v.clone()),
                "Vec<&X>" => |s, v, aux| s.put(v.iter().collect::<Vec<_>>()),
                "&&Vec<X>" => |s, v, aux| s.put(&v),
                "[X;N]" => |s, v, aux| match v.len() {
                    0 => s.put(<[_; 0]>::try_from(v.clone()).ok().unwrap()),
                    1 => s.put(<[_; 1]>::try_from(v.clone()).ok().unwrap()),
                    2 => s.put(<[_; 2]>::try_from(v.clone()).ok().unwrap()),
                    _ => s.put(v.as_slice()),
                },
                "&[X;N]" => |s, v, aux| match v.len() {
                    0 => s.put(<&[_; 0]>::try_from(v.as_slice()).unwrap()),
                    3 => s.put(<&[_; 3]>::try_from(v.as_slice()).unwrap()),
                    _ => s.put(v.as_slice()),
                },
                "&&[X;N]" => |s, v, aux| match v.len() {
                    1 => s.put(&<&[_; 1]>::try_from(v.as_slice()).unwrap()),
                    2 => s.put(&<&[_; 2]>::try_from(v.as_slice()).unwrap()),
                    _ => s.put(v.as_slice()),
                },
                "read-item(region)" => |s, v, aux| { let i = aux.push(v); s.put(aux.index(i)) },
                "read-item(borrowed)" => |s, v, aux| s.put(<<$R as Region>::ReadItem<'_> as IntoOwned>::borrow_as(v)),
            ]
        }
    };
}

slice_entry!(ESliceMirrorU8, "slice<mirror<u8>>", SliceRegion<MirrorRegion<u8>>, clone: yes, serde: yes, model: yes,
    reserve: [(|v| v), (|v| v.as_slice()), (|v| <<SliceRegion<MirrorRegion<u8>> as Region>::ReadItem<'_> as IntoOwned>::borrow_as(v))],
    flags: { structural: true });
slice_entry!(EPairsSliceU8, "pairs<slice<mirror<u8>>,optimized>", Pairs<SliceRegion<MirrorRegion<u8>>, IO>, clone: yes, serde: yes, model: yes, reserve: (|v| v),
    flags: { idx_is_usize: true, dense: true });
slice_entry!(EPairsSliceString, "pairs<slice<string>,list>", Pairs<SliceRegion<StringRegion>, IL>, clone: yes, serde: yes, model: yes, reserve: (|v| v),
    flags: { idx_is_usize: true, dense: true, stringy: true });
slice_entry!(ESliceMirrorUsizeOpt, "slice<mirror<usize>,optimized>", SliceRegion<MirrorRegion<usize>, IO>, clone: yes, serde: yes, model: yes, reserve: (|v| v),
    flags: {});
slice_entry!(ESliceMirrorUsizeList, "slice<mirror<usize>,list>", SliceRegion<MirrorRegion<usize>, IL>, clone: yes, serde: yes, model: yes, reserve: (|v| v),
    flags: {});
slice_entry!(ESliceString, "slice<string>", SliceRegion<StringRegion>, clone: yes, serde: yes, model: yes,
    reserve: [(|v| v), (|v| v.as_slice())],
    flags: { stringy: true, structural: true });
slice_entry!(ESliceOwnedU8, "slice<owned<u8>>", SliceRegion<OwnedRegion<u8>>, clone: yes, serde: yes, model: yes, reserve: (|v| v),
    flags: { structural: true });
slice_entry!(ESlicePairsString, "slice<pairs<string>,optimized>", SliceRegion<Pairs<StringRegion, IO>, IO>, clone: yes, serde: yes, model: yes, reserve: (|v| v),
    flags: { stringy: true });
slice_entry!(ESlicePairsStringVec, "slice<pairs<string>,vec>", SliceRegion<Pairs<StringRegion, IO>, Vec<usize>>, clone: yes, serde: yes, model: yes, reserve: (|v| v),
    flags: { stringy: true });
slice_entry!(ESlicePairsStringList, "slice<pairs<string,list>,list>", SliceRegion<Pairs<StringRegion, IL>, IL>, clone: yes, serde: yes, model: yes, reserve: (|v| v),
    flags: { stringy: true });
slice_entry!(ESliceSliceU8, "slice<slice<mirror<u8>>>", SliceRegion<SliceRegion<MirrorRegion<u8>>>, clone: yes, serde: yes, model: yes,
    reserve: [(|v| v), (|v| v.as_slice()), (|v| <<SliceRegion<SliceRegion<MirrorRegion<u8>>> as Region>::ReadItem<'_> as IntoOwned>::borrow_as(v))],
    flags: { structural: true });
slice_entry!(ESliceSliceString, "slice<slice<string>>", SliceRegion<SliceRegion<StringRegion>>, clone: yes, serde: yes, model: yes, reserve: (|v| v),
    flags: { stringy: true, structural: true });
slice_entry!(ESlice3U8, "slice<slice<slice<mirror<u8>>>>", SliceRegion<SliceRegion<SliceRegion<MirrorRegion<u8>>>>, clone: yes, serde: yes, model: yes, reserve: (|v| v),
    flags: { structural: true });
slice_entry!(ESliceOptionString, "slice<option<string>>", SliceRegion<OptionRegion<StringRegion>>, clone: yes, serde: yes, model: yes, reserve: (|v| v),
    flags: { stringy: true, structural: true });
slice_entry!(ESliceTuple, "slice<tuple(mirror<u8>,string)>", SliceRegion<TupleABRegion<MirrorRegion<u8>, StringRegion>>, clone: yes, serde: yes, model: yes, reserve: (|v| v),
    flags: { stringy: true, structural: true });
slice_entry!(ESliceResult, "slice<result<string,mirror<u8>>>", SliceRegion<ResultRegion<StringRegion, MirrorRegion<u8>>>, clone: yes, serde: yes, model: yes, reserve: (|v| v),
    flags: { stringy: true, structural: true });
slice_entry!(ESliceVecU32Vec, "slice<vec<u32>>", SliceRegion<Vec<u32>>, clone: yes, serde: yes, model: yes, reserve: (|v| v),
    flags: { structural: true });
slice_entry!(ESliceVecU32, "slice<vec<u32>,optimized>", SliceRegion<Vec<u32>, IO>, clone: yes, serde: yes, model: yes, reserve: (|v| v),
    flags: {});
slice_entry!(ESliceHuffman, "slice<huffman<u8>>", SliceRegion<HuffmanContainer<u8>>, clone: yes, serde: no, model: no, reserve: none,
    flags: { coded: true, can_heap: false, can_reserve_regions: false });
slice_entry!(ESliceStringDict, "slice<string<codec-dict>>", SliceRegion<StringRegion<DictCodec>>, clone: no, serde: no, model: no, reserve: none,
    flags: { coded: true, stringy: true });
slice_entry!(ESliceStringPairsOwned, "slice<string<pairs<owned<u8>>>,optimized>", SliceRegion<StringRegion<Pairs<OwnedRegion<u8>, IO>>, IO>, clone: yes, serde: yes, model: yes, reserve: (|v| v),
    flags: { stringy: true });
slice_entry!(ESliceColumns, "slice<columns<mirror<u8>>>", SliceRegion<ColumnsRegion<MirrorRegion<u8>>, IO>, clone: yes, serde: yes, model: yes, reserve: none,
    flags: {});

/// Slices over collapsing regions: the inner region only accepts forms comparable with its
/// read item, so the element forms are spelled out.
entry! { ESliceCollapsePairsString, "slice<collapse<pairs<string>>,optimized>", SliceRegion<Collapse<Pairs<StringRegion, IO>>, IO>,
    clone: yes, serde: yes, model: yes,
    flags: { stringy: true },
    reserve: none,
    canon: "&Vec<String>" => |v| v,
    forms: [
        "&[String]" => |s, v, aux| s.put(v.as_slice()),
        "Vec<String>" => |s, v, aux| s.put(v.clone()),
        "Vec<&str>" => |s, v, aux| s.put(v.iter().map(|x| x.as_str()).collect::<Vec<_>>()),
        "Vec<&String>" => |s, v, aux| s.put(v.iter().collect::<Vec<_>>()),
        "read-item(region)" => |s, v, aux| { let i = aux.push(v); s.put(aux.index(i)) },
        "read-item(borrowed)" => |s, v, aux| s.put(<<SliceRegion<Collapse<Pairs<StringRegion, IO>>, IO> as Region>::ReadItem<'_> as IntoOwned>::borrow_as(v)),
    ]
}
entry! { ESliceCollapseString, "slice<collapse<string>>", SliceRegion<Collapse<StringRegion>>,
    clone: yes, serde: yes, model: yes,
    flags: { stringy: true },
    reserve: none,
    canon: "&Vec<String>" => |v| v,
    forms: [
        "&[String]" => |s, v, aux| s.put(v.as_slice()),
        "Vec<String>" => |s, v, aux| s.put(v.clone()),
        "Vec<&str>" => |s, v, aux| s.put(v.iter().map(|x| x.as_str()).collect::<Vec<_>>()),
        "read-item(region)" => |s, v, aux| { let i = aux.push(v); s.put(aux.index(i)) },
        "read-item(borrowed)" => |s, v, aux| s.put(<<SliceRegion<Collapse<StringRegion>> as Region>::ReadItem<'_> as IntoOwned>::borrow_as(v)),
    ]
}

/// `ColumnsRegion<X, O>`: value is a row `Vec<XV>`.
macro_rules! columns_entry {
    ($name:ident, $label:expr, $R:ty, clone: $c:tt, serde: $s:tt, model: $m:tt,
     flags: { $($flag:ident : $fv:expr),* }) => {
        entry! { $name, $label, $R,
            clone: $c, serde: $s, model: $m,
            flags: { idx_is_usize: true, dense: true $(, $flag: $fv)* },
            reserve: none,
            canon: "&Vec<X>" => |v| v,
            forms: [
                "&[X]" => |s, v, aux| s.put(v.as_slice()),
                "Vec<X>" => |s, v, aux| s.put(v.clone()),
                "Vec<&X>" => |s, v, aux| s.put(v.iter().collect::<Vec<_>>()),
                "PushIter<&X>" => |s, v, aux| s.put(PushIter(v.iter())),
                "PushIter<X>" => |s, v, aux| s.put(PushIter(v.clone())),
                "[X;N]" => |s, v, aux| match v.len() {
                    0 => s.put(<[_; 0]>::try_from(v.clone()).ok().unwrap()),
                    1 => s.put(<[_; 1]>::try_from(v.clone()).ok().unwrap()),
                    3 => s.put(<[_; 3]>::try_from(v.clone()).ok().unwrap()),
                    _ => s.put(v.as_slice()),
                },
                "&[X;N]" => |s, v, aux| match v.len() {
                    0 => s.put(<&[_; 0]>::try_from(v.as_slice()).unwrap()),
                    2 => s.put(<&[_; 2]>::try_from(v.as_slice()).unwrap()),
                    _ => s.put(v.as_slice()),
                },
                "read-item(region)" => |s, v, aux| { let i = aux.push(v); s.put(aux.index(i)) },
                "read-item(borrowed)" => |s, v, aux| s.put(<<$R as Region>::ReadItem<'_> as IntoOwned>::borrow_as(v)),
                "PushIter(read-slice)" => |s, v, aux| {
                    // the row as a read item of a slice region over the same cell region (not
                    // the first item there), handed over as an iterator
                    let mut sr = <SliceRegion<<$R as ColInner>::Inner>>::default();
                    let _ = sr.push(v);
                    let i = sr.push(v);
                    s.put(PushIter(sr.index(i)))
                },
            ]
        }
    };
}
/// The cell region of a columns region.
pub trait ColInner {
    type Inner: flatcontainer::Region;
}
impl<R: flatcontainer::Region, O> ColInner for ColumnsRegion<R, O> {
    type Inner = R;
}
columns_entry!(EColumnsMirrorU8, "columns<mirror<u8>,optimized>", ColumnsRegion<MirrorRegion<u8>, IO>, clone: yes, serde: yes, model: yes, flags: {});
columns_entry!(EColumnsMirrorU8Vec, "columns<mirror<u8>,vec>", ColumnsRegion<MirrorRegion<u8>, Vec<usize>>, clone: yes, serde: yes, model: yes, flags: {});
columns_entry!(EColumnsMirrorU8List, "columns<mirror<u8>,list>", ColumnsRegion<MirrorRegion<u8>, IL>, clone: yes, serde: yes, model: yes, flags: {});
columns_entry!(EColumnsString, "columns<string>", ColumnsRegion<StringRegion, IO>, clone: yes, serde: yes, model: yes, flags: { stringy: true });
columns_entry!(EColumnsPairsString, "columns<pairs<string>>", ColumnsRegion<Pairs<StringRegion, IO>, IO>, clone: yes, serde: yes, model: yes, flags: { stringy: true });
columns_entry!(EColumnsOwnedU8, "columns<owned<u8>>", ColumnsRegion<OwnedRegion<u8>, IO>, clone: yes, serde: yes, model: yes, flags: {});
columns_entry!(EColumnsSliceU8, "columns<slice<mirror<u8>>>", ColumnsRegion<SliceRegion<MirrorRegion<u8>>, IO>, clone: yes, serde: yes, model: yes, flags: {});
columns_entry!(EColumnsColumns, "columns<columns<mirror<u8>>>", ColumnsRegion<ColumnsRegion<MirrorRegion<u8>, IO>, IO>, clone: yes, serde: yes, model: yes, flags: {});
columns_entry!(EColumnsVecU32, "columns<vec<u32>>", ColumnsRegion<Vec<u32>, IO>, clone: yes, serde: yes, model: yes, flags: {});
columns_entry!(EColumnsHuffman, "columns<huffman<u8>>", ColumnsRegion<HuffmanContainer<u8>, IO>, clone: yes, serde: no, model: no,
    flags: { coded: true, can_heap: false, can_reserve_regions: false });
columns_entry!(EColumnsStringDict, "columns<string<codec-dict>>", ColumnsRegion<StringRegion<DictCodec>, IO>, clone: no, serde: no, model: no,
    flags: { coded: true, stringy: true });
columns_entry!(EColumnsOptionString, "columns<option<string>>", ColumnsRegion<OptionRegion<StringRegion>, IO>, clone: yes, serde: yes, model: yes, flags: { stringy: true });

entry! { EColumnsCollapsePairsString, "columns<collapse<pairs<string>>>", ColumnsRegion<Collapse<Pairs<StringRegion, IO>>, IO>,
    clone: yes, serde: yes, model: yes,
    flags: { idx_is_usize: true, dense: true, stringy: true },
    reserve: none,
    canon: "&Vec<String>" => |v| v,
    forms: [
        "&[String]" => |s, v, aux| s.put(v.as_slice()),
        "Vec<String>" => |s, v, aux| s.put(v.clone()),
        "Vec<&str>" => |s, v, aux| s.put(v.iter().map(|x| x.as_str()).collect::<Vec<_>>()),
        "PushIter<&String>" => |s, v, aux| s.put(PushIter(v.iter())),
        "PushIter<&str>" => |s, v, aux| s.put(PushIter(v.iter().map(|x| x.as_str()).collect::<Vec<_>>())),
        "read-item(region)" => |s, v, aux| { let i = aux.push(v); s.put(aux.index(i)) },
        "read-item(borrowed)" => |s, v, aux| s.put(<<ColumnsRegion<Collapse<Pairs<StringRegion, IO>>, IO> as Region>::ReadItem<'_> as IntoOwned>::borrow_as(v)),
    ]
}
entry! { ESliceColumnsTuple, "slice<columns<tuple(mirror<u8>,collapse<owned<()>>,collapse<string>)>>",
    SliceRegion<ColumnsRegion<TupleABCRegion<MirrorRegion<u8>, Collapse<OwnedRegion<()>>, Collapse<StringRegion>>, IO>, IO>,
    clone: yes, serde: yes, model: yes,
    flags: { stringy: true },
    reserve: none,
    canon: "&Vec<Vec<tuple>>" => |v| v,
    forms: [
        "&[Vec<tuple>]" => |s, v, aux| s.put(v.as_slice()),
        "Vec<Vec<tuple>>" => |s, v, aux| s.put(v.clone()),
        "read-item(region)" => |s, v, aux| { let i = aux.push(v); s.put(aux.index(i)) },
    ]
}
