//! The accessor sweep: does a read item describe exactly the model value?
//!
//! `Check<V>` is implemented for every read-item type of the crate, recursively, so that
//! `len`, `is_empty`, `get(i)`, iteration, size hints, `Debug` and `into_owned` are all
//! compared against the owned model value, and (when asked) out-of-bounds `get` must panic.

use crate::panics;
use crate::val::Same;
use flatcontainer::impls::huffman_container::HuffmanContainer;
use flatcontainer::impls::index::IndexContainer;
use flatcontainer::impls::columns::ReadColumns;
use flatcontainer::impls::slice::ReadSlice;
use flatcontainer::impls::codec::{Codec, CodecRegion};
use flatcontainer::impls::deduplicate::{CollapseSequence, ConsecutiveIndexPairs};
use flatcontainer::impls::tuple::*;
use flatcontainer::{ColumnsRegion, Index, IntoOwned, MirrorRegion, OptionRegion, OwnedRegion, Region, ResultRegion, SliceRegion, StringRegion};
use std::cell::Cell;
use std::fmt::Debug;

#[derive(Clone, Copy, Debug)]
pub struct Lvl {
    /// probe `get(i)` for i >= len; each must panic
    pub oob: bool,
    /// compare `Debug` renderings
    pub debug: bool,
    /// additionally decode every `&str` (chars, rev char_indices, to_uppercase): under Miri this
    /// turns truncated sequences and surrogates into reported UB
    pub consume_str: bool,
}

impl Lvl {
    pub const BASIC: Lvl = Lvl { oob: false, debug: false, consume_str: false };
    pub const FULL: Lvl = Lvl { oob: true, debug: true, consume_str: false };
    pub const OOB: Lvl = Lvl { oob: true, debug: false, consume_str: false };
}

thread_local! {
    pub static READS: Cell<u64> = const { Cell::new(0) };
    pub static OOB_PROBES: Cell<u64> = const { Cell::new(0) };
    pub static STR_CONSUMED: Cell<u64> = const { Cell::new(0) };
}

pub fn take_stats() -> (u64, u64, u64) {
    (READS.with(|c| c.replace(0)), OOB_PROBES.with(|c| c.replace(0)), STR_CONSUMED.with(|c| c.replace(0)))
}

#[inline]
fn read() {
    READS.with(|c| c.set(c.get() + 1));
}

/// Implemented per region type (the read-item types are not all nameable).
pub trait RegionCheck: Region {
    fn check_item(item: Self::ReadItem<'_>, v: &Self::Owned, lvl: Lvl) -> Result<(), String>;
}

fn mismatch(what: &str, got: String, want: String) -> Result<(), String> {
    Err(format!("{what}: got {got}, expected {want}"))
}

// ---------------------------------------------------------------- leaves

fn check_str(item: &str, v: &String, lvl: Lvl) -> Result<(), String> {
    read();
    if item.as_bytes() != v.as_bytes() {
        return mismatch("str bytes", format!("{:?}", item.as_bytes()), format!("{:?} ({:?})", v.as_bytes(), v));
    }
    if std::str::from_utf8(item.as_bytes()).is_err() {
        return Err(format!("returned &str is not valid UTF-8: {:?}", item.as_bytes()));
    }
    if item.len() != v.len() || item.is_empty() != v.is_empty() {
        return Err("str len/is_empty disagree".into());
    }
    let o: String = IntoOwned::into_owned(item);
    if !o.same(v) {
        return mismatch("str into_owned", o.render(), v.render());
    }
    if lvl.consume_str {
        STR_CONSUMED.with(|c| c.set(c.get() + 1));
        let n = item.chars().count();
        let m = item.char_indices().rev().count();
        let u = item.to_uppercase();
        if n != m || n != v.chars().count() || u != v.to_uppercase() {
            return Err("decoding the returned &str disagrees with the pushed string".into());
        }
    }
    if lvl.debug && format!("{:?}", item) != format!("{:?}", v) {
        return Err("str Debug differs".into());
    }
    Ok(())
}

fn check_slice<T: Same + Clone>(item: &[T], v: &Vec<T>) -> Result<(), String> {
    read();
    if item.len() != v.len() {
        return mismatch("slice len", item.len().to_string(), v.len().to_string());
    }
    if item.is_empty() != v.is_empty() {
        return Err("slice is_empty disagrees with len".into());
    }
    if std::mem::size_of::<T>() == 0 {
        return Ok(());
    }
    for (i, (a, b)) in item.iter().zip(v.iter()).enumerate() {
        if !a.same(b) {
            return mismatch(&format!("slice element {i}"), a.render(), b.render());
        }
    }
    let o: Vec<T> = item.to_vec();
    if !o.same(v) {
        return Err("slice into_owned differs".into());
    }
    Ok(())
}

impl<R> RegionCheck for StringRegion<R>
where
    for<'a> R: Region<ReadItem<'a> = &'a [u8]> + 'a,
{
    fn check_item(item: &str, v: &String, lvl: Lvl) -> Result<(), String> {
        check_str(item, v, lvl)
    }
}

impl<T: Same + Clone + 'static> RegionCheck for OwnedRegion<T> {
    fn check_item(item: &[T], v: &Vec<T>, _lvl: Lvl) -> Result<(), String> {
        check_slice(item, v)
    }
}

impl<C: Codec, R> RegionCheck for CodecRegion<C, R>
where
    for<'a> R: Region<ReadItem<'a> = &'a [u8]> + 'a,
{
    fn check_item(item: &[u8], v: &Vec<u8>, _lvl: Lvl) -> Result<(), String> {
        check_slice(item, v)
    }
}

/// `Vec<T>` used as a region reads `&T`.
impl<T: Same + Clone> RegionCheck for Vec<T> {
    fn check_item(item: &T, v: &T, _lvl: Lvl) -> Result<(), String> {
        read();
        if !item.same(v) {
            return mismatch("element", item.render(), v.render());
        }
        Ok(())
    }
}

impl<T> RegionCheck for MirrorRegion<T>
where
    for<'a> T: Index + IntoOwned<'a, Owned = T> + Same,
{
    fn check_item(item: T, v: &T, _lvl: Lvl) -> Result<(), String> {
        read();
        if !item.same(v) {
            return mismatch("mirrored value", item.render(), v.render());
        }
        let o: T = IntoOwned::into_owned(item);
        if !o.same(v) {
            return mismatch("mirrored into_owned", o.render(), v.render());
        }
        Ok(())
    }
}

// ---------------------------------------------------------------- wrappers and fan-out

impl<R: RegionCheck> RegionCheck for CollapseSequence<R> {
    fn check_item(item: R::ReadItem<'_>, v: &R::Owned, lvl: Lvl) -> Result<(), String> {
        R::check_item(item, v, lvl)
    }
}

impl<R, O> RegionCheck for ConsecutiveIndexPairs<R, O>
where
    R: RegionCheck + Region<Index = (usize, usize)>,
    O: IndexContainer<usize>,
{
    fn check_item(item: R::ReadItem<'_>, v: &R::Owned, lvl: Lvl) -> Result<(), String> {
        R::check_item(item, v, lvl)
    }
}

impl<R: RegionCheck> RegionCheck for OptionRegion<R> {
    fn check_item(item: Option<R::ReadItem<'_>>, v: &Option<R::Owned>, lvl: Lvl) -> Result<(), String> {
        match (item, v) {
            (Some(i), Some(v)) => R::check_item(i, v, lvl).map_err(|e| format!("Some: {e}")),
            (None, None) => {
                read();
                Ok(())
            }
            (Some(_), None) => Err("read Some, expected None".into()),
            (None, Some(_)) => Err("read None, expected Some".into()),
        }
    }
}

impl<T: RegionCheck, E: RegionCheck> RegionCheck for ResultRegion<T, E> {
    fn check_item(
        item: Result<T::ReadItem<'_>, E::ReadItem<'_>>,
        v: &Result<T::Owned, E::Owned>,
        lvl: Lvl,
    ) -> Result<(), String> {
        match (item, v) {
            (Ok(i), Ok(v)) => T::check_item(i, v, lvl).map_err(|e| format!("Ok: {e}")),
            (Err(i), Err(v)) => E::check_item(i, v, lvl).map_err(|e| format!("Err: {e}")),
            (Ok(_), Err(_)) => Err("read Ok, expected Err".into()),
            (Err(_), Ok(_)) => Err("read Err, expected Ok".into()),
        }
    }
}

macro_rules! tuple_check {
    ($region:ident; $($n:ident $i:tt),+) => {
        impl<$($n: RegionCheck),+> RegionCheck for $region<$($n),+> {
            fn check_item(item: ($($n::ReadItem<'_>,)+), v: &($($n::Owned,)+), lvl: Lvl) -> Result<(), String> {
                $( $n::check_item(item.$i, &v.$i, lvl).map_err(|e| format!("field {}: {e}", $i))?; )+
                Ok(())
            }
        }
    };
}
tuple_check!(TupleARegion; A 0);
tuple_check!(TupleABRegion; A 0, B 1);
tuple_check!(TupleABCRegion; A 0, B 1, C 2);
tuple_check!(TupleABCDRegion; A 0, B 1, C 2, D 3);
tuple_check!(TupleABCDEFGHIJKLRegion; A 0, B 1, C 2, D 3, E 4, F 5, G 6, H 7, I 8, J 9, K 10, L 11);

// ---------------------------------------------------------------- size hints

/// Drains `it` (at most `bound` elements), checking at every step that `size_hint`
/// brackets the true remainder. Returns the elements.
pub fn drain_checked<I: Iterator>(mut it: I, expect: usize, what: &str) -> Result<Vec<I::Item>, String> {
    let mut out = Vec::with_capacity(expect.min(1 << 16));
    loop {
        let (lo, hi) = it.size_hint();
        let remaining_if_ok = expect.saturating_sub(out.len());
        if out.len() <= expect {
            if lo > remaining_if_ok {
                return Err(format!("{what}: size_hint lower bound {lo} exceeds true remainder {remaining_if_ok}"));
            }
            if let Some(hi) = hi {
                if hi < remaining_if_ok {
                    return Err(format!("{what}: size_hint upper bound {hi} below true remainder {remaining_if_ok}"));
                }
            }
        }
        match it.next() {
            Some(x) => {
                out.push(x);
                if out.len() > expect {
                    return Err(format!("{what}: iterator yields more than the expected {expect} elements"));
                }
            }
            None => break,
        }
    }
    if out.len() != expect {
        return Err(format!("{what}: iterator yields {} elements, expected {expect}", out.len()));
    }
    Ok(out)
}

/// Iteration is more than `next`: `nth`, `skip`, `step_by`, `count` and `last` (which a type
/// may override) must describe the same sequence. `mk` makes a fresh iterator over an item of
/// `n` elements, `same(k, x)` judges whether `x` is element `k`.
pub fn adaptors_checked<I: Iterator>(mk: impl Fn() -> I, n: usize, what: &str, same: &dyn Fn(usize, I::Item) -> Result<(), String>) -> Result<(), String> {
    if n > 96 {
        return Ok(());
    }
    let mut ks = vec![0usize, 1, n / 2, n.saturating_sub(1), n, n + 3];
    ks.dedup();
    for &k in &ks {
        // nth(k), then the iterator continues behind element k
        let mut it = mk();
        match it.nth(k) {
            Some(x) if k < n => same(k, x).map_err(|e| format!("{what}: nth({k}): {e}"))?,
            Some(_) => return Err(format!("{what}: nth({k}) on {n} elements yields an element")),
            None if k < n => return Err(format!("{what}: nth({k}) on {n} elements yields None")),
            None => {}
        }
        match it.next() {
            Some(x) if k + 1 < n => same(k + 1, x).map_err(|e| format!("{what}: next() after nth({k}): {e}"))?,
            Some(_) => return Err(format!("{what}: next() after nth({k}) on {n} elements yields an element")),
            None if k + 1 < n => return Err(format!("{what}: next() after nth({k}) on {n} elements yields None")),
            None => {}
        }
        // skip(k): elements k.. in order, nothing else
        let mut seen = 0usize;
        for (j, x) in mk().skip(k).enumerate() {
            if k + j >= n {
                return Err(format!("{what}: skip({k}) on {n} elements yields more than {} elements", n.saturating_sub(k)));
            }
            same(k + j, x).map_err(|e| format!("{what}: skip({k}) element {j}: {e}"))?;
            seen += 1;
        }
        if seen != n.saturating_sub(k) {
            return Err(format!("{what}: skip({k}) on {n} elements yields {seen} elements"));
        }
    }
    for step in [2usize, 3] {
        let mut seen = 0usize;
        for (j, x) in mk().step_by(step).enumerate() {
            if j * step >= n {
                return Err(format!("{what}: step_by({step}) on {n} elements yields too many elements"));
            }
            same(j * step, x).map_err(|e| format!("{what}: step_by({step}) element {j}: {e}"))?;
            seen += 1;
        }
        if seen != (n + step - 1) / step {
            return Err(format!("{what}: step_by({step}) on {n} elements yields {seen} elements"));
        }
    }
    let c = mk().count();
    if c != n {
        return Err(format!("{what}: count() = {c} on {n} elements"));
    }
    match mk().last() {
        Some(x) if n > 0 => same(n - 1, x).map_err(|e| format!("{what}: last(): {e}"))?,
        Some(_) => return Err(format!("{what}: last() on an empty item yields an element")),
        None if n > 0 => return Err(format!("{what}: last() on {n} elements yields None")),
        None => {}
    }
    Ok(())
}

pub const OOB_OFFSETS: [usize; 4] = [0, 1, 7, usize::MAX];

/// Probes positions >= len; every one must panic.
fn oob_probe<T>(len: usize, what: &str, get: impl Fn(usize) -> T) -> Result<(), String> {
    for off in OOB_OFFSETS {
        let i = if off == usize::MAX { usize::MAX } else { len + off };
        if i < len {
            continue;
        }
        OOB_PROBES.with(|c| c.set(c.get() + 1));
        if !panics::panics(|| {
            let _ = get(i);
        }) {
            return Err(format!("{what}: get({i}) on an item of length {len} returned instead of panicking"));
        }
    }
    Ok(())
}

// ---------------------------------------------------------------- slices

impl<R, O> RegionCheck for SliceRegion<R, O>
where
    R: RegionCheck + 'static,
    O: IndexContainer<R::Index>,
    R::Owned: Same + Debug,
    for<'b> R::ReadItem<'b>: Debug,
{
    fn check_item(item: ReadSlice<'_, R, O>, v: &Vec<R::Owned>, lvl: Lvl) -> Result<(), String> {
        let this = item;
        read();
        if this.len() != v.len() {
            return mismatch("ReadSlice::len", this.len().to_string(), v.len().to_string());
        }
        if this.is_empty() != v.is_empty() {
            return Err("ReadSlice::is_empty disagrees with len".into());
        }
        for (i, want) in v.iter().enumerate() {
            R::check_item(this.get(i), want, lvl).map_err(|e| format!("get({i}): {e}"))?;
        }
        let items = drain_checked(this.iter(), v.len(), "ReadSlice::iter")?;
        for (i, (item, want)) in items.into_iter().zip(v.iter()).enumerate() {
            let o = IntoOwned::into_owned(item);
            if !o.same(want) {
                return mismatch(&format!("iter element {i}"), o.render(), want.render());
            }
        }
        adaptors_checked(|| this.iter(), v.len(), "ReadSlice::iter", &|k, x| {
            let o: R::Owned = IntoOwned::into_owned(x);
            if o.same(&v[k]) {
                Ok(())
            } else {
                mismatch(&format!("element {k}"), o.render(), v[k].render())
            }
        })?;
        let items = drain_checked(this.into_iter(), v.len(), "ReadSlice::into_iter")?;
        if items.len() != v.len() {
            return Err("into_iter length".into());
        }
        let o = IntoOwned::into_owned(this);
        if !o.same(v) {
            return mismatch("ReadSlice::into_owned", o.render(), v.render());
        }
        if lvl.debug {
            let a = format!("{:?}", this);
            let b = format!("{:?}", v);
            if a != b {
                return mismatch("ReadSlice Debug", a, b);
            }
        }
        if lvl.oob {
            oob_probe(v.len(), "ReadSlice", |i| {
                let _ = this.get(i);
            })?;
        }
        Ok(())
    }
}

// ---------------------------------------------------------------- columns

impl<R, O> RegionCheck for ColumnsRegion<R, O>
where
    R: RegionCheck + 'static,
    O: IndexContainer<usize>,
    R::Owned: Same + Debug,
    for<'b> R::ReadItem<'b>: Debug,
{
    fn check_item(item: ReadColumns<'_, R>, v: &Vec<R::Owned>, lvl: Lvl) -> Result<(), String> {
        let this = item;
        read();
        if this.len() != v.len() {
            return mismatch("ReadColumns::len", this.len().to_string(), v.len().to_string());
        }
        if this.is_empty() != v.is_empty() {
            return Err("ReadColumns::is_empty disagrees with len".into());
        }
        for (i, want) in v.iter().enumerate() {
            R::check_item(this.get(i), want, lvl).map_err(|e| format!("cell {i}: {e}"))?;
        }
        let items = drain_checked((&this).into_iter(), v.len(), "ReadColumns::iter")?;
        for (i, (item, want)) in items.into_iter().zip(v.iter()).enumerate() {
            let o = IntoOwned::into_owned(item);
            if !o.same(want) {
                return mismatch(&format!("row iter cell {i}"), o.render(), want.render());
            }
        }
        adaptors_checked(|| (&this).into_iter(), v.len(), "ReadColumns::iter", &|k, x| {
            let o: R::Owned = IntoOwned::into_owned(x);
            if o.same(&v[k]) {
                Ok(())
            } else {
                mismatch(&format!("cell {k}"), o.render(), v[k].render())
            }
        })?;
        let o = IntoOwned::into_owned(this);
        if !o.same(v) {
            return mismatch("ReadColumns::into_owned", o.render(), v.render());
        }
        if lvl.debug {
            let a = format!("{:?}", this);
            let b = format!("{:?}", v);
            if a != b {
                return mismatch("ReadColumns Debug", a, b);
            }
        }
        if lvl.oob {
            oob_probe(v.len(), "ReadColumns", |i| {
                let _ = this.get(i);
            })?;
        }
        Ok(())
    }
}

// ---------------------------------------------------------------- huffman

impl<B> RegionCheck for HuffmanContainer<B>
where
    B: Ord + Clone + Same + Debug + 'static,
{
    fn check_item(item: Self::ReadItem<'_>, v: &Vec<B>, lvl: Lvl) -> Result<(), String> {
        read();
        // bounded decode first: a broken code table may yield symbols forever
        match item.decode() {
            Ok(iter) => {
                let mut n = 0usize;
                for (i, s) in iter.take(v.len() + 1).enumerate() {
                    if i >= v.len() {
                        return Err(format!("decoder yields more than the {} pushed symbols", v.len()));
                    }
                    if !s.same(&v[i]) {
                        return mismatch(&format!("decoded symbol {i}"), s.render(), v[i].render());
                    }
                    n += 1;
                }
                if n != v.len() {
                    return Err(format!("decoder yields {n} symbols, expected {}", v.len()));
                }
            }
            Err(slice) => {
                if slice.len() != v.len() || !slice.iter().zip(v.iter()).all(|(a, b)| a.same(b)) {
                    return Err("raw symbols differ".into());
                }
            }
        }
        let o = IntoOwned::into_owned(item);
        if !o.same(v) {
            return mismatch("Wrapped::into_owned", o.render(), v.render());
        }
        if lvl.debug {
            let a = format!("{:?}", item);
            let b = format!("{:?}", v);
            if a != b {
                return mismatch("Wrapped Debug", a, b);
            }
        }
        Ok(())
    }
}
