//! Catalogue entries: one concrete region composition each, with all its input forms.
//!
//! The `Entry` trait hides every higher-ranked bound behind concrete, macro-generated
//! method bodies, so that the monitors can be written generically over `E: Entry`.

use crate::check::Lvl;
use crate::val::Val;
use flatcontainer::impls::index::IndexContainer;
use flatcontainer::{FlatStack, Region};
use serde::de::DeserializeOwned;
use serde::Serialize;
use std::fmt::Debug;

pub type Idx<E> = <<E as Entry>::R as Region>::Index;
pub type Stack<E, S> = FlatStack<<E as Entry>::R, S>;

/// Everything the harness needs from an index container.
pub trait IdxC<I>: IndexContainer<I> + Clone + Debug + Serialize + DeserializeOwned + 'static {
    const KIND: &'static str;
    /// true if the container never spends heap on a sequence 0,1,2,...
    const COMPRESSING: bool;
}
impl<I: Copy + Debug + Serialize + DeserializeOwned + 'static> IdxC<I> for Vec<I> {
    const KIND: &'static str = "vec";
    const COMPRESSING: bool = false;
}
impl IdxC<usize> for flatcontainer::impls::index::IndexOptimized {
    const KIND: &'static str = "optimized";
    const COMPRESSING: bool = true;
}
impl IdxC<usize> for flatcontainer::impls::index::IndexList<Vec<u32>, Vec<u64>> {
    const KIND: &'static str = "list";
    const COMPRESSING: bool = false;
}

/// Where a form delivers its item: a bare region (`push`) or a FlatStack (`copy`).
pub trait Sink<R: Region> {
    fn put<T>(&mut self, item: T) -> Option<R::Index>
    where
        R: flatcontainer::Push<T>;
}
pub struct RegionSink<'a, R>(pub &'a mut R);
impl<R: Region> Sink<R> for RegionSink<'_, R> {
    #[inline]
    fn put<T>(&mut self, item: T) -> Option<R::Index>
    where
        R: flatcontainer::Push<T>,
    {
        Some(self.0.push(item))
    }
}
pub struct StackSink<'a, R, S>(pub &'a mut FlatStack<R, S>);
impl<R: Region, S: IndexContainer<R::Index>> Sink<R> for StackSink<'_, R, S> {
    #[inline]
    fn put<T>(&mut self, item: T) -> Option<R::Index>
    where
        R: flatcontainer::Push<T>,
    {
        self.0.copy(item);
        None
    }
}

pub trait Entry: Sized + 'static {
    type R: Region<Owned = Self::V> + 'static;
    type V: Val + Debug;

    fn label() -> &'static str;
    fn form_names() -> Vec<&'static str>;
    /// Number of leading forms that do not need the auxiliary region.
    fn push(r: &mut Self::R, v: &Self::V, form: usize, aux: &mut Self::R) -> Idx<Self>;
    fn fs_copy<S: IdxC<Idx<Self>>>(fs: &mut Stack<Self, S>, v: &Self::V, form: usize, aux: &mut Self::R);
    fn fs_extend<S: IdxC<Idx<Self>>>(fs: &mut Stack<Self, S>, vs: &[Self::V]);
    fn fs_from_iter<S: IdxC<Idx<Self>>>(vs: &[Self::V]) -> Stack<Self, S>;
    fn check(item: <Self::R as Region>::ReadItem<'_>, v: &Self::V, lvl: Lvl) -> Result<(), String>;
    fn idx_same(a: &Idx<Self>, b: &Idx<Self>) -> bool;
    fn idx_render(a: &Idx<Self>) -> String;

    /// `reserve_items` through the `which`-th reservation form (0 = canonical); false if the
    /// entry has no `ReserveItems` impl (or `which` is out of range).
    fn reserve_items_form(_r: &mut Self::R, _vs: &[Self::V], _which: usize) -> bool {
        false
    }
    fn fs_reserve_items_form<S: IdxC<Idx<Self>>>(_fs: &mut Stack<Self, S>, _vs: &[Self::V], _which: usize) -> bool {
        false
    }
    fn reserve_form_count() -> usize {
        0
    }
    /// Pushes the owned value itself (the `Push<Owned>` form), if the region accepts it.
    fn push_owned(_r: &mut Self::R, _v: Self::V) -> Option<Idx<Self>> {
        None
    }
    fn can_push_owned() -> bool {
        false
    }
    fn reserve_items(r: &mut Self::R, vs: &[Self::V]) -> bool {
        Self::reserve_items_form(r, vs, 0)
    }
    fn fs_reserve_items<S: IdxC<Idx<Self>>>(fs: &mut Stack<Self, S>, vs: &[Self::V]) -> bool {
        Self::fs_reserve_items_form(fs, vs, 0)
    }
    fn clone_r(_r: &Self::R) -> Option<Self::R> {
        None
    }
    fn clone_from_r(_dst: &mut Self::R, _src: &Self::R) -> bool {
        false
    }
    fn fs_clone<S: IdxC<Idx<Self>>>(_fs: &Stack<Self, S>) -> Option<Stack<Self, S>> {
        None
    }
    fn fs_clone_from<S: IdxC<Idx<Self>>>(_dst: &mut Stack<Self, S>, _src: &Stack<Self, S>) -> bool {
        false
    }
    fn to_json(_r: &Self::R) -> Option<Result<String, String>> {
        None
    }
    fn from_json(_s: &str) -> Option<Result<Self::R, String>> {
        None
    }
    fn fs_to_json<S: IdxC<Idx<Self>>>(_fs: &Stack<Self, S>) -> Option<Result<String, String>> {
        None
    }
    fn fs_from_json<S: IdxC<Idx<Self>>>(_s: &str) -> Option<Result<Stack<Self, S>, String>> {
        None
    }
    fn debug_r(_r: &Self::R) -> Option<String> {
        None
    }
    /// `format!("{:?}", stack)`
    fn fs_debug<S: IdxC<Idx<Self>>>(fs: &Stack<Self, S>) -> String;
    /// Lower bound for the summed `used` bytes after pushing `vs` (in order) into a fresh region.
    fn min_used(_vs: &[&Self::V]) -> Option<usize> {
        None
    }
    /// Structural expectations on returned indices that the properties state (dense 0,1,2,..
    /// for pairs/columns nodes, equal index for equal consecutive items at collapsing nodes).
    fn walk(_seq: &[(&Self::V, Idx<Self>)], _mode: crate::model::Walk) -> Result<(), String> {
        Ok(())
    }
    /// Number of collapsing / dense nodes `walk` looks at (0 = walk is vacuous).
    fn walk_nodes() -> (usize, usize) {
        (0, 0)
    }
    fn scale(v: &Self::V, k: usize) -> Self::V {
        v.scale(k)
    }

    fn can_clone() -> bool {
        false
    }
    fn can_serde() -> bool {
        false
    }
    fn can_reserve_items() -> bool {
        false
    }
    /// `heap_size` implemented (HuffmanContainer's is `todo!()`).
    fn can_heap() -> bool {
        true
    }
    /// `reserve_regions` implemented (HuffmanContainer's is `todo!()`).
    fn can_reserve_regions() -> bool {
        true
    }
    /// index type is `usize` (FlatStack can use the compressing index containers)
    fn idx_is_usize() -> bool {
        false
    }
    /// indices are 0,1,2,... in push order (consecutive-pairs / columns at the top)
    fn dense() -> bool {
        false
    }
    /// top-level region is a CollapseSequence
    fn collapse_top() -> bool {
        false
    }
    /// contains a codec / Huffman region whose behaviour depends on merge statistics
    fn coded() -> bool {
        false
    }
    /// hands out `&str` somewhere
    fn stringy() -> bool {
        false
    }
    /// vector-backed structural region in the sense of C17
    fn structural() -> bool {
        false
    }
    /// JSON can carry this entry's indices losslessly (no directly nested Option)
    fn json_lossless() -> bool {
        true
    }
}

/// entry! { Name, "label", RegionType,
///     clone: yes|no, serde: yes|no, model: yes|no,
///     flags: { fn_name: value, ... },
///     reserve: none | (|v| expr),
///     canon: |v| expr,                       // canonical by-reference item (form 0; extend/from_iter)
///     forms: [ "name" => |s, v, aux| expr, ... ] }   // expr: Option<Index>, via s.put(item)
#[macro_export]
macro_rules! entry {
    (
        $name:ident, $label:expr, $R:ty,
        clone: $clone:tt, serde: $serde:tt, model: $model:tt,
        flags: { $($flag:ident : $fv:expr),* $(,)? },
        reserve: $reserve:tt,
        $(owned: $owned:tt,)?
        canon: $cname:expr => |$cv:ident| $ce:expr,
        forms: [ $( $fname:expr => |$s:ident, $v:ident, $aux:ident| $e:expr ),* $(,)? ]
    ) => {
        pub struct $name;
        #[allow(unused_variables, unused_mut, unused_assignments, unused_imports, clippy::all)]
        impl $crate::entry::Entry for $name {
            type R = $R;
            type V = <$R as flatcontainer::Region>::Owned;

            fn label() -> &'static str { $label }
            fn form_names() -> Vec<&'static str> { vec![$cname $(, $fname)*] }

            fn push(r: &mut Self::R, v0: &Self::V, form: usize, aux0: &mut Self::R) -> $crate::entry::Idx<Self> {
                use flatcontainer::{Push, Region, IntoOwned, PushIter};
                use $crate::entry::Sink;
                if form == 0 {
                    let $cv = v0;
                    return flatcontainer::Push::push(r, $ce);
                }
                let mut sink = $crate::entry::RegionSink(r);
                let mut i = 1usize;
                $(
                    if form == i {
                        let $s = &mut sink;
                        let $v = v0;
                        let $aux = &mut *aux0;
                        let out: Option<$crate::entry::Idx<Self>> = $e;
                        return out.expect("region sink returns an index");
                    }
                    i += 1;
                )*
                panic!("harness: form {} out of range for {}", form, $label);
            }
            fn fs_copy<S: $crate::entry::IdxC<$crate::entry::Idx<Self>>>(
                fs: &mut $crate::entry::Stack<Self, S>, v0: &Self::V, form: usize, aux0: &mut Self::R,
            ) {
                use flatcontainer::{Push, Region, IntoOwned, PushIter};
                use $crate::entry::Sink;
                if form == 0 {
                    let $cv = v0;
                    fs.copy($ce);
                    return;
                }
                let mut sink = $crate::entry::StackSink(fs);
                let mut i = 1usize;
                $(
                    if form == i {
                        let $s = &mut sink;
                        let $v = v0;
                        let $aux = &mut *aux0;
                        let _out: Option<$crate::entry::Idx<Self>> = $e;
                        return;
                    }
                    i += 1;
                )*
                panic!("harness: form {} out of range for {}", form, $label);
            }
            fn fs_extend<S: $crate::entry::IdxC<$crate::entry::Idx<Self>>>(
                fs: &mut $crate::entry::Stack<Self, S>, vs: &[Self::V],
            ) {
                fs.extend(vs.iter().map(|$cv| $ce))
            }
            fn fs_from_iter<S: $crate::entry::IdxC<$crate::entry::Idx<Self>>>(
                vs: &[Self::V],
            ) -> $crate::entry::Stack<Self, S> {
                vs.iter().map(|$cv| $ce).collect()
            }
            fn check(item: <Self::R as flatcontainer::Region>::ReadItem<'_>, v: &Self::V, lvl: $crate::check::Lvl) -> Result<(), String> {
                <Self::R as $crate::check::RegionCheck>::check_item(item, v, lvl)
            }
            fn idx_same(a: &$crate::entry::Idx<Self>, b: &$crate::entry::Idx<Self>) -> bool {
                $crate::val::Same::same(a, b)
            }
            fn idx_render(a: &$crate::entry::Idx<Self>) -> String {
                $crate::val::Same::render(a)
            }
            fn fs_debug<S: $crate::entry::IdxC<$crate::entry::Idx<Self>>>(fs: &$crate::entry::Stack<Self, S>) -> String {
                format!("{:?}", fs)
            }

            $crate::entry!(@reserve $reserve);
            $( $crate::entry!(@owned $owned); )?
            $crate::entry!(@clone $clone);
            $crate::entry!(@serde $serde);
            $crate::entry!(@model $model);
            $( fn $flag() -> bool { $fv } )*
        }
    };

    (@reserve none) => {};
    (@reserve (|$v:ident| $e:expr)) => {
        $crate::entry!(@reserve [ (|$v| $e) ]);
    };
    (@reserve [ $( (|$v:ident| $e:expr) ),+ $(,)? ]) => {
        fn reserve_items_form(r: &mut Self::R, vs: &[Self::V], which: usize) -> bool {
            use flatcontainer::{IntoOwned, PushIter, Region};
            let mut i = 0usize;
            $(
                if which == i {
                    flatcontainer::ReserveItems::reserve_items(r, vs.iter().map(|$v| $e));
                    return true;
                }
                i += 1;
            )+
            false
        }
        fn fs_reserve_items_form<S: $crate::entry::IdxC<$crate::entry::Idx<Self>>>(
            fs: &mut $crate::entry::Stack<Self, S>, vs: &[Self::V], which: usize,
        ) -> bool {
            use flatcontainer::{IntoOwned, PushIter, Region};
            let mut i = 0usize;
            $(
                if which == i {
                    fs.reserve_items(vs.iter().map(|$v| $e));
                    return true;
                }
                i += 1;
            )+
            false
        }
        fn reserve_form_count() -> usize {
            let mut n = 0usize;
            $( let _ = stringify!($v); n += 1; )+
            n
        }
        fn can_reserve_items() -> bool { true }
    };

    (@owned no) => {};
    (@owned yes) => {
        fn push_owned(r: &mut Self::R, v: Self::V) -> Option<$crate::entry::Idx<Self>> {
            Some(flatcontainer::Push::push(r, v))
        }
        fn can_push_owned() -> bool { true }
    };

    (@clone no) => {};
    (@clone yes) => {
        fn clone_r(r: &Self::R) -> Option<Self::R> { Some(r.clone()) }
        fn clone_from_r(dst: &mut Self::R, src: &Self::R) -> bool { dst.clone_from(src); true }
        fn fs_clone<S: $crate::entry::IdxC<$crate::entry::Idx<Self>>>(
            fs: &$crate::entry::Stack<Self, S>,
        ) -> Option<$crate::entry::Stack<Self, S>> { Some(fs.clone()) }
        fn fs_clone_from<S: $crate::entry::IdxC<$crate::entry::Idx<Self>>>(
            dst: &mut $crate::entry::Stack<Self, S>, src: &$crate::entry::Stack<Self, S>,
        ) -> bool { dst.clone_from(src); true }
        fn can_clone() -> bool { true }
    };

    (@serde no) => {};
    (@serde yes) => {
        fn to_json(r: &Self::R) -> Option<Result<String, String>> {
            Some(serde_json::to_string(r).map_err(|e| e.to_string()))
        }
        fn from_json(s: &str) -> Option<Result<Self::R, String>> {
            Some(serde_json::from_str(s).map_err(|e| e.to_string()))
        }
        fn fs_to_json<S: $crate::entry::IdxC<$crate::entry::Idx<Self>>>(
            fs: &$crate::entry::Stack<Self, S>,
        ) -> Option<Result<String, String>> {
            Some(serde_json::to_string(fs).map_err(|e| e.to_string()))
        }
        fn fs_from_json<S: $crate::entry::IdxC<$crate::entry::Idx<Self>>>(
            s: &str,
        ) -> Option<Result<$crate::entry::Stack<Self, S>, String>> {
            Some(serde_json::from_str(s).map_err(|e| e.to_string()))
        }
        fn can_serde() -> bool { true }
    };

    (@model no) => {};
    (@model yes) => {
        fn min_used(vs: &[&Self::V]) -> Option<usize> {
            Some(<Self::R as $crate::model::Model>::min_used(vs))
        }
        fn walk(seq: &[(&Self::V, $crate::entry::Idx<Self>)], mode: $crate::model::Walk) -> Result<(), String> {
            <Self::R as $crate::model::Model>::walk(seq, mode)
        }
        fn walk_nodes() -> (usize, usize) {
            <Self::R as $crate::model::Model>::nodes()
        }
    };
}
