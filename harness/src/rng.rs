//! Deterministic PRNG (splitmix64). Everything random derives from VERIF_SEED.

#[derive(Clone, Debug)]
pub struct Rng(pub u64);

pub fn mix(mut z: u64) -> u64 {
    z = z.wrapping_add(0x9E37_79B9_7F4A_7C15);
    z = (z ^ (z >> 30)).wrapping_mul(0xBF58_476D_1CE4_E5B9);
    z = (z ^ (z >> 27)).wrapping_mul(0x94D0_49BB_1331_11EB);
    z ^ (z >> 31)
}

pub fn hash_str(s: &str) -> u64 {
    let mut h: u64 = 0xcbf2_9ce4_8422_2325;
    for b in s.bytes() {
        h ^= b as u64;
        h = h.wrapping_mul(0x0000_0100_0000_01B3);
    }
    mix(h)
}

pub fn hash_bytes(h0: u64, s: &[u8]) -> u64 {
    let mut h: u64 = h0 ^ 0xcbf2_9ce4_8422_2325;
    for b in s {
        h ^= *b as u64;
        h = h.wrapping_mul(0x0000_0100_0000_01B3);
    }
    h
}

impl Rng {
    pub fn new(seed: u64) -> Self {
        Rng(mix(seed ^ 0x5851_F42D_4C95_7F2D))
    }
    /// A stream derived from (seed, labels...).
    pub fn derive(seed: u64, labels: &[&str], n: u64) -> Self {
        let mut s = mix(seed);
        for l in labels {
            s = mix(s ^ hash_str(l));
        }
        Rng(mix(s ^ mix(n)))
    }
    #[inline]
    pub fn next(&mut self) -> u64 {
        self.0 = self.0.wrapping_add(0x9E37_79B9_7F4A_7C15);
        let mut z = self.0;
        z = (z ^ (z >> 30)).wrapping_mul(0xBF58_476D_1CE4_E5B9);
        z = (z ^ (z >> 27)).wrapping_mul(0x94D0_49BB_1331_11EB);
        z ^ (z >> 31)
    }
    /// Uniform in 0..n (n > 0).
    #[inline]
    pub fn below(&mut self, n: usize) -> usize {
        debug_assert!(n > 0);
        (self.next() % (n as u64)) as usize
    }
    /// Uniform in lo..=hi.
    #[inline]
    pub fn range(&mut self, lo: usize, hi: usize) -> usize {
        lo + self.below(hi - lo + 1)
    }
    #[inline]
    pub fn chance(&mut self, num: usize, den: usize) -> bool {
        self.below(den) < num
    }
    pub fn pick<'a, T>(&mut self, xs: &'a [T]) -> &'a T {
        &xs[self.below(xs.len())]
    }
}
