//! Quiet panic hook that records message + location per thread, and `catch`.

use std::cell::RefCell;
use std::panic::{catch_unwind, AssertUnwindSafe};
use std::sync::Once;

#[derive(Clone, Debug)]
pub struct Panic {
    pub msg: String,
    /// `file:line` of the panic site (file path made relative to the crate root where possible).
    pub loc: String,
}

impl Panic {
    /// Location without the line number; used in violation signatures so that an
    /// unrelated edit above the site does not change the signature.
    pub fn file(&self) -> String {
        self.loc.split(':').next().unwrap_or("").to_string()
    }
    pub fn short(&self) -> String {
        let mut m = self.msg.clone();
        if m.len() > 160 {
            let mut cut = 160;
            while !m.is_char_boundary(cut) {
                cut -= 1;
            }
            m.truncate(cut);
            m.push('…');
        }
        format!("panic at {}: {}", self.loc, m)
    }
}

thread_local! {
    static LAST: RefCell<Option<Panic>> = const { RefCell::new(None) };
}

static INSTALL: Once = Once::new();

pub fn install() {
    INSTALL.call_once(|| {
        std::panic::set_hook(Box::new(|info| {
            let msg = if let Some(s) = info.payload().downcast_ref::<&str>() {
                (*s).to_string()
            } else if let Some(s) = info.payload().downcast_ref::<String>() {
                s.clone()
            } else {
                "<non-string panic payload>".to_string()
            };
            let loc = info
                .location()
                .map(|l| {
                    let f = l.file();
                    let f = f.strip_prefix("/repo/").unwrap_or(f);
                    format!("{}:{}", f, l.line())
                })
                .unwrap_or_else(|| "<unknown>".to_string());
            let _ = LAST.try_with(|c| {
                if let Ok(mut c) = c.try_borrow_mut() {
                    *c = Some(Panic { msg, loc });
                }
            });
        }));
    });
}

/// Runs `f`, converting a panic into `Err(Panic)`.
pub fn catch<T>(f: impl FnOnce() -> T) -> Result<T, Panic> {
    match catch_unwind(AssertUnwindSafe(f)) {
        Ok(v) => Ok(v),
        Err(_) => Err(LAST.with(|c| c.borrow_mut().take()).unwrap_or(Panic {
            msg: "<panic not recorded>".into(),
            loc: "<unknown>".into(),
        })),
    }
}

/// True iff `f` panics.
pub fn panics<T>(f: impl FnOnce() -> T) -> bool {
    catch(f).is_err()
}
