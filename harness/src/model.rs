//! Reference model mirrored over the region types: a sound lower bound for the summed `used`
//! bytes (C18), and the structural index expectations the properties state (C11, C12) at every
//! depth at which returned indices expose them.

use crate::val::Val;
use flatcontainer::impls::codec::{Codec, CodecRegion};
use flatcontainer::impls::deduplicate::{CollapseSequence, ConsecutiveIndexPairs};
use flatcontainer::impls::huffman_container::HuffmanContainer;
use flatcontainer::impls::index::{IndexContainer, IndexList, IndexOptimized};
use flatcontainer::impls::tuple::*;
use flatcontainer::{
    ColumnsRegion, Index, IntoOwned, MirrorRegion, OptionRegion, OwnedRegion, Region, ResultRegion, SliceRegion,
    StringRegion,
};

/// Lower bound of the heap an index container spends on `n` entries of `I`.
pub trait IdxModel<I> {
    fn min_bytes(n: usize) -> usize;
}
impl<I> IdxModel<I> for Vec<I> {
    fn min_bytes(n: usize) -> usize {
        n * std::mem::size_of::<I>()
    }
}
impl IdxModel<usize> for IndexOptimized {
    fn min_bytes(_n: usize) -> usize {
        0
    }
}
impl IdxModel<usize> for IndexList<Vec<u32>, Vec<u64>> {
    fn min_bytes(n: usize) -> usize {
        4 * n
    }
}

/// Which structural expectation `walk` verifies (so that a broken collapsing node is never
/// reported against the density property and vice versa).
#[derive(Clone, Copy, Debug, PartialEq, Eq)]
pub enum Walk {
    /// C11: equal consecutive items at a collapsing node return the same index
    Collapse,
    /// C12: consecutive-pairs / columns nodes return 0, 1, 2, ...
    Dense,
}

pub trait Model: Region {
    fn min_used(vs: &[&Self::Owned]) -> usize;
    fn walk(_seq: &[(&Self::Owned, Self::Index)], _mode: Walk) -> Result<(), String> {
        Ok(())
    }
    /// (collapsing nodes, dense nodes) that `walk` inspects.
    fn nodes() -> (usize, usize) {
        (0, 0)
    }
}

impl<R> Model for StringRegion<R>
where
    for<'a> R: Region<ReadItem<'a> = &'a [u8], Owned = Vec<u8>> + Model + 'a,
{
    fn min_used(vs: &[&String]) -> usize {
        let bytes: Vec<Vec<u8>> = vs.iter().map(|s| s.as_bytes().to_vec()).collect();
        let refs: Vec<&Vec<u8>> = bytes.iter().collect();
        R::min_used(&refs)
    }
}

impl<T: Clone + 'static> Model for OwnedRegion<T> {
    fn min_used(vs: &[&Vec<T>]) -> usize {
        vs.iter().map(|v| v.len()).sum::<usize>() * std::mem::size_of::<T>()
    }
}

impl<T> Model for MirrorRegion<T>
where
    for<'a> T: Index + IntoOwned<'a, Owned = T>,
{
    fn min_used(_vs: &[&T]) -> usize {
        0
    }
}

impl<T: Clone> Model for Vec<T> {
    fn min_used(vs: &[&T]) -> usize {
        vs.len() * std::mem::size_of::<T>()
    }
}

impl<C: Codec, R> Model for CodecRegion<C, R>
where
    for<'a> R: Region<ReadItem<'a> = &'a [u8]> + 'a,
{
    fn min_used(_vs: &[&Vec<u8>]) -> usize {
        0
    }
}

impl<B: Ord + Clone + Sized + 'static> Model for HuffmanContainer<B> {
    fn min_used(_vs: &[&Vec<B>]) -> usize {
        0
    }
}

impl<R: Model, O: IndexContainer<R::Index> + IdxModel<R::Index>> Model for SliceRegion<R, O> {
    fn min_used(vs: &[&Vec<R::Owned>]) -> usize {
        let flat: Vec<&R::Owned> = vs.iter().flat_map(|v| v.iter()).collect();
        O::min_bytes(flat.len()) + R::min_used(&flat)
    }
}

impl<R: Model> Model for OptionRegion<R> {
    fn min_used(vs: &[&Option<R::Owned>]) -> usize {
        let inner: Vec<&R::Owned> = vs.iter().filter_map(|v| v.as_ref()).collect();
        R::min_used(&inner)
    }
    fn walk(seq: &[(&Option<R::Owned>, Option<R::Index>)], mode: Walk) -> Result<(), String> {
        let mut inner = Vec::new();
        for (v, i) in seq {
            match (v, i) {
                (Some(v), Some(i)) => inner.push((v, *i)),
                (None, None) => {}
                _ => return Err("option index variant differs from the pushed value's".into()),
            }
        }
        R::walk(&inner, mode).map_err(|e| format!("Some: {e}"))
    }
    fn nodes() -> (usize, usize) {
        R::nodes()
    }
}

impl<T: Model, E: Model> Model for ResultRegion<T, E> {
    fn min_used(vs: &[&Result<T::Owned, E::Owned>]) -> usize {
        let oks: Vec<&T::Owned> = vs.iter().filter_map(|v| v.as_ref().ok()).collect();
        let errs: Vec<&E::Owned> = vs.iter().filter_map(|v| v.as_ref().err()).collect();
        T::min_used(&oks) + E::min_used(&errs)
    }
    fn walk(seq: &[(&Result<T::Owned, E::Owned>, Result<T::Index, E::Index>)], mode: Walk) -> Result<(), String> {
        let mut oks = Vec::new();
        let mut errs = Vec::new();
        for (v, i) in seq {
            match (v, i) {
                (Ok(v), Ok(i)) => oks.push((v, *i)),
                (Err(v), Err(i)) => errs.push((v, *i)),
                _ => return Err("result index variant differs from the pushed value's".into()),
            }
        }
        T::walk(&oks, mode).map_err(|e| format!("Ok: {e}"))?;
        E::walk(&errs, mode).map_err(|e| format!("Err: {e}"))
    }
    fn nodes() -> (usize, usize) {
        let (a, b) = T::nodes();
        let (c, d) = E::nodes();
        (a + c, b + d)
    }
}

macro_rules! tuple_model {
    ($region:ident; $($n:ident $i:tt),+) => {
        impl<$($n: Model),+> Model for $region<$($n),+> {
            fn min_used(vs: &[&($($n::Owned,)+)]) -> usize {
                let mut total = 0;
                $(
                    let part: Vec<&$n::Owned> = vs.iter().map(|v| &v.$i).collect();
                    total += $n::min_used(&part);
                )+
                total
            }
            fn walk(seq: &[(&($($n::Owned,)+), ($($n::Index,)+))], mode: Walk) -> Result<(), String> {
                $(
                    let part: Vec<(&$n::Owned, $n::Index)> = seq.iter().map(|(v, i)| (&v.$i, i.$i)).collect();
                    $n::walk(&part, mode).map_err(|e| format!("field {}: {e}", $i))?;
                )+
                Ok(())
            }
            fn nodes() -> (usize, usize) {
                let mut a = 0; let mut b = 0;
                $( let (x, y) = $n::nodes(); a += x; b += y; )+
                (a, b)
            }
        }
    };
}
tuple_model!(TupleARegion; A 0);
tuple_model!(TupleABRegion; A 0, B 1);
tuple_model!(TupleABCRegion; A 0, B 1, C 2);
tuple_model!(TupleABCDRegion; A 0, B 1, C 2, D 3);
tuple_model!(TupleABCDEFGHIJKLRegion; A 0, B 1, C 2, D 3, E 4, F 5, G 6, H 7, I 8, J 9, K 10, L 11);

impl<R: Model> Model for CollapseSequence<R>
where
    R::Owned: Val,
    R::Index: crate::val::Same,
{
    fn min_used(vs: &[&R::Owned]) -> usize {
        let mut dedup: Vec<&R::Owned> = Vec::new();
        for v in vs {
            if let Some(last) = dedup.last() {
                if last.peq(v) {
                    continue;
                }
            }
            dedup.push(v);
        }
        R::min_used(&dedup)
    }
    fn walk(seq: &[(&R::Owned, R::Index)], mode: Walk) -> Result<(), String> {
        use crate::val::Same;
        let mut inner: Vec<(&R::Owned, R::Index)> = Vec::new();
        for (k, (v, i)) in seq.iter().enumerate() {
            if let Some((lv, li)) = inner.last() {
                if mode == Walk::Dense {
                    // whatever was collapsed (same index returned) did not reach the inner region
                    if li.same(i) {
                        continue;
                    }
                } else if lv.peq(v) {
                    if !li.same(i) {
                        return Err(format!(
                            "collapsing node: push #{k} equals its predecessor but returned index {} instead of {}",
                            i.render(),
                            li.render()
                        ));
                    }
                    continue;
                }
            }
            inner.push((v, *i));
        }
        R::walk(&inner, mode)
    }
    fn nodes() -> (usize, usize) {
        let (a, b) = R::nodes();
        (a + 1, b)
    }
}

impl<R, O> Model for ConsecutiveIndexPairs<R, O>
where
    R: Model + Region<Index = (usize, usize)>,
    O: IndexContainer<usize> + IdxModel<usize>,
{
    fn min_used(vs: &[&R::Owned]) -> usize {
        R::min_used(vs) + O::min_bytes(vs.len() + 1)
    }
    fn walk(seq: &[(&R::Owned, usize)], mode: Walk) -> Result<(), String> {
        if mode != Walk::Dense {
            return Ok(());
        }
        for (k, (_, i)) in seq.iter().enumerate() {
            if *i != k {
                return Err(format!("consecutive-pairs node: push #{k} returned index {i}"));
            }
        }
        Ok(())
    }
    fn nodes() -> (usize, usize) {
        (0, 1)
    }
}

impl<R, O> Model for ColumnsRegion<R, O>
where
    R: Model,
    O: IndexContainer<usize> + IdxModel<usize>,
{
    fn min_used(vs: &[&Vec<R::Owned>]) -> usize {
        let cols = vs.iter().map(|v| v.len()).max().unwrap_or(0);
        let mut total = cols * std::mem::size_of::<R>();
        for c in 0..cols {
            let col: Vec<&R::Owned> = vs.iter().filter_map(|v| v.get(c)).collect();
            total += R::min_used(&col);
        }
        let cells: usize = vs.iter().map(|v| v.len()).sum();
        total + cells * std::mem::size_of::<R::Index>() + O::min_bytes(vs.len() + 1)
    }
    fn walk(seq: &[(&Vec<R::Owned>, usize)], mode: Walk) -> Result<(), String> {
        if mode != Walk::Dense {
            return Ok(());
        }
        for (k, (_, i)) in seq.iter().enumerate() {
            if *i != k {
                return Err(format!("columns node: push #{k} returned index {i}"));
            }
        }
        Ok(())
    }
    fn nodes() -> (usize, usize) {
        (0, 1)
    }
}
