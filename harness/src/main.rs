#![allow(clippy::all)]
#![allow(dead_code, unused_imports, unused_doc_comments)]

pub mod alloc;
pub mod catalogue;
pub mod check;
pub mod codecs;
pub mod driver;
pub mod entry;
pub mod live;
pub mod model;
pub mod monitors;
pub mod panics;
pub mod registry;
pub mod rng;
pub mod val;

use driver::{RunCfg, Tier};
use serde_json::json;
use std::time::Duration;

#[cfg(not(miri))]
#[global_allocator]
static GLOBAL: alloc::Counting = alloc::Counting;

fn usage() -> ! {
    eprintln!(
        "usage: fcverif <Cnn> [--tier quick|thorough|miri] [--seed N] [--profile NAME] [--out FILE]\n\
         \x20      [--threads N] [--entry LABEL] [--what WORKLOAD] [--hist N] [--verbose] [--watchdog SECS]\n\
         \x20      fcverif --list"
    );
    std::process::exit(64);
}

fn main() {
    let args: Vec<String> = std::env::args().skip(1).collect();
    if args.is_empty() {
        usage();
    }
    let reg = registry::registry();
    if args[0] == "--list" {
        for d in &reg {
            println!("{}\t{} forms\t{:?}", d.label, d.forms.len(), d.flags);
        }
        return;
    }
    let prop = args[0].clone();
    let mut tier = Tier::Quick;
    let mut seed: u64 = 0;
    let mut profile = String::from("unknown");
    let mut out: Option<String> = None;
    let mut threads = std::thread::available_parallelism().map(|n| n.get()).unwrap_or(4);
    let mut only_entry = None;
    let mut only_what = None;
    let mut only_hist = None;
    let mut verbose = false;
    let mut watchdog = 0u64;
    let mut i = 1;
    while i < args.len() {
        let a = args[i].as_str();
        let mut val = || {
            i += 1;
            args.get(i).cloned().unwrap_or_else(|| usage())
        };
        match a {
            "--tier" => {
                tier = match val().as_str() {
                    "quick" => Tier::Quick,
                    "thorough" => Tier::Thorough,
                    "miri" => Tier::Miri,
                    _ => usage(),
                }
            }
            "--seed" => seed = val().parse().unwrap_or_else(|_| usage()),
            "--profile" => profile = val(),
            "--out" => out = Some(val()),
            "--threads" => threads = val().parse().unwrap_or_else(|_| usage()),
            "--entry" => only_entry = Some(val()),
            "--what" => only_what = Some(val()),
            "--hist" => only_hist = Some(val().parse().unwrap_or_else(|_| usage())),
            "--watchdog" => watchdog = val().parse().unwrap_or_else(|_| usage()),
            "--verbose" => verbose = true,
            _ => usage(),
        }
        i += 1;
    }
    if cfg!(miri) {
        threads = 1;
    }
    let defs = monitors::props();
    let Some(def) = defs.iter().find(|d| d.id == prop) else {
        eprintln!("unknown property {prop}");
        std::process::exit(64);
    };
    let plan = monitors::Plan { tier, seed, reg: &reg, only_entry, only_what, only_hist };
    let mut jobs = (def.jobs)(&plan);
    let replaying = plan.only_entry.is_some() || plan.only_what.is_some() || plan.only_hist.is_some();
    jobs.retain(|j| {
        plan.only_entry.as_ref().map_or(true, |e| &j.entry == e)
            && plan.only_what.as_ref().map_or(true, |w| &j.what == w)
            && plan.only_hist.map_or(true, |h| j.hist_no == h)
    });
    // longest-looking jobs first would need knowledge we do not have; interleave entries instead
    let cfg = RunCfg {
        prop: def.id,
        seed,
        tier,
        profile: profile.clone(),
        threads,
        watchdog: Duration::from_secs(if watchdog > 0 {
            watchdog
        } else {
            match tier {
                Tier::Quick => 900,
                Tier::Thorough => 5400,
                Tier::Miri => 7200,
            }
        }),
        verbose,
    };
    panics::install();
    let res = driver::run_jobs(&cfg, jobs);
    let rep = res.report;
    let mut missing: Vec<String> = Vec::new();
    let mut required_n = 0usize;
    if !replaying {
        for c in (def.required)(&plan) {
            required_n += 1;
            if !rep.covered.contains(&c) {
                missing.push(c);
            }
        }
    }
    let violations: Vec<_> = rep.violations.values().map(|v| v.to_json()).collect();
    let result = json!({
        "property": def.id,
        "tier": tier.name(),
        "seed": seed,
        "profile": profile,
        "jobs": res.jobs,
        "evaluations": rep.evaluations,
        "distinct_nontrivial": rep.nontrivial.len() as u64 + rep.nontrivial_counted,
        "distinct_by_construction": rep.nontrivial_counted,
        "nontrivial_hashes": if rep.nontrivial.len() <= 200_000 { rep.nontrivial.iter().map(|h| format!("{:x}", h)).collect::<Vec<_>>() } else { vec![] },
        "counters": rep.counters,
        "samples": rep.samples,
        "violations": violations,
        "violation_events": rep.violation_count,
        "notes": rep.notes,
        "entries": rep.entries,
        "covered": rep.covered.len(),
        "required_classes": required_n,
        "covered_sample": rep.covered.iter().take(40).collect::<Vec<_>>(),
        "missing_coverage": missing,
        "digest": format!("{:016x}", rep.digest),
        "rule": def.rule,
        "assumptions": def.assumptions,
        "wall_s": res.wall_s,
    });
    let text = serde_json::to_string_pretty(&result).unwrap();
    match &out {
        Some(p) => std::fs::write(p, text).expect("write result file"),
        None => {
            let mut brief = result.clone();
            brief.as_object_mut().unwrap().remove("nontrivial_hashes");
            println!("{}", serde_json::to_string_pretty(&brief).unwrap());
        }
    }
    if !rep.violations.is_empty() {
        for v in rep.violations.values() {
            eprintln!("violation {} [{}]: {}", v.sig, v.profile, v.msg);
            if replaying {
                for l in &v.log {
                    eprintln!("    {l}");
                }
            }
        }
        std::process::exit(1);
    }
    if !rep.notes.is_empty() || !missing.is_empty() {
        for n in &rep.notes {
            eprintln!("inconclusive: {n}");
        }
        for m in &missing {
            eprintln!("inconclusive: coverage class not observed: {m}");
        }
        std::process::exit(2);
    }
}
