#![allow(clippy::all)]
#![allow(dead_code, unused_imports, unused_doc_comments)]

pub mod alloc;
pub mod catalogue;
pub mod check;
pub mod codecs;
pub mod driver;
pub mod entry;
pub mod model;
pub mod panics;
pub mod rng;
pub mod val;

#[cfg(not(miri))]
#[global_allocator]
static GLOBAL: alloc::Counting = alloc::Counting;

fn main() {
    println!("fcverif");
}
