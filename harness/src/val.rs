//! Owned model values: bit-exact equality, rendering, generators, payload scaling.

use crate::rng::Rng;
use std::num::Wrapping;
use std::time::Duration;

#[derive(Clone, Copy, Debug, PartialEq, Eq)]
pub enum Kind {
    /// 2-4 distinct values per leaf: many repeats, exhaustive-friendly.
    Tiny,
    /// boundary values, multi-byte UTF-8, empty and ragged containers.
    Hostile,
    /// long strings / many elements.
    Long,
}

#[derive(Clone, Copy, Debug)]
pub struct Dom {
    pub kind: Kind,
    /// Only values a self-describing text format represents losslessly (finite, short floats).
    pub json_safe: bool,
    pub depth: u8,
}

impl Dom {
    pub fn new(kind: Kind) -> Self {
        Dom { kind, json_safe: false, depth: 0 }
    }
    pub fn json(mut self) -> Self {
        self.json_safe = true;
        self
    }
    pub fn deeper(mut self) -> Self {
        self.depth += 1;
        self
    }
    /// Maximum container length at this depth.
    pub fn max_len(&self) -> usize {
        match (self.kind, self.depth) {
            (Kind::Tiny, _) => 3,
            (Kind::Hostile, 0) => 9,
            (Kind::Hostile, 1) => 5,
            (Kind::Hostile, _) => 3,
            (Kind::Long, 0) => 160,
            (Kind::Long, 1) => 12,
            (Kind::Long, _) => 4,
        }
    }
}

/// Bit-exact equality and a bounded rendering. Implemented for values and indices.
pub trait Same {
    fn same(&self, other: &Self) -> bool;
    fn render(&self) -> String;
}

pub fn clip(mut s: String) -> String {
    if s.len() > 96 {
        let mut cut = 90;
        while !s.is_char_boundary(cut) {
            cut -= 1;
        }
        let total = s.len();
        s.truncate(cut);
        s.push_str(&format!("…(+{}B)", total - cut));
    }
    s
}

/// An owned model value.
pub trait Val: Same + Clone + PartialEq + 'static {
    fn gen(rng: &mut Rng, dom: Dom) -> Self;
    /// Same shape and equality pattern, leaf payloads (strings) k times longer.
    fn scale(&self, _k: usize) -> Self {
        self.clone()
    }
    /// Another value made of the same leaf material: strings and innermost sequences are
    /// doubled (`s + s`), so every first byte and every symbol of the sibling occurs in the
    /// original at the same place of the structure. What a coded region built from statistics
    /// over `self` must accept although it never saw the sibling itself.
    fn sibling(&self) -> Self {
        self.clone()
    }
    /// A run of `n` values with structure that is interesting for this type
    /// (default: independent draws with repeats).
    fn gen_run(rng: &mut Rng, dom: Dom, n: usize) -> Vec<Self> {
        let mut out: Vec<Self> = Vec::with_capacity(n);
        for _ in 0..n {
            if !out.is_empty() && rng.chance(1, 4) {
                let v = out[out.len() - 1].clone();
                out.push(v);
            } else if out.len() > 1 && rng.chance(1, 8) {
                let v = out[rng.below(out.len())].clone();
                out.push(v);
            } else {
                out.push(Self::gen(rng, dom));
            }
        }
        out
    }
    /// The crate's own notion of equality (`PartialEq`; NaN != NaN, 0.0 == -0.0), which is
    /// what `CollapseSequence` uses. O(1) for vectors of zero-sized elements.
    fn peq(&self, o: &Self) -> bool {
        self == o
    }
    fn is_zst() -> bool {
        std::mem::size_of::<Self>() == 0
    }
    /// Number of direct elements (row width / slice length); 0 for non-containers.
    fn width(&self) -> usize {
        0
    }
    /// An empty string / vector (useful as a letter of exhaustive alphabets).
    fn is_empty_container(&self) -> bool {
        false
    }
}

macro_rules! int_val {
    ($($t:ty),*) => {$(
        impl Same for $t {
            fn same(&self, o: &Self) -> bool { self == o }
            fn render(&self) -> String { format!("{}", self) }
        }
        impl Val for $t {
            fn gen(rng: &mut Rng, dom: Dom) -> Self {
                match dom.kind {
                    Kind::Tiny => [0 as $t, 1 as $t, 7 as $t][rng.below(3)],
                    _ => match rng.below(8) {
                        0 => 0 as $t,
                        1 => <$t>::MAX,
                        2 => <$t>::MIN,
                        3 => <$t>::MAX - 1,
                        4 => 1 as $t,
                        5 => (rng.next() % 251) as $t,
                        _ => rng.next() as $t,
                    },
                }
            }
        }
    )*};
}
int_val!(u8, u16, u32, u64, i8, i16, i32, i64, isize);

impl Same for u128 {
    fn same(&self, o: &Self) -> bool {
        self == o
    }
    fn render(&self) -> String {
        format!("{}", self)
    }
}
impl Val for u128 {
    fn gen(rng: &mut Rng, dom: Dom) -> Self {
        match dom.kind {
            Kind::Tiny => [0u128, 1, 7][rng.below(3)],
            _ if dom.json_safe => rng.next() as u128,
            _ => match rng.below(5) {
                0 => 0,
                1 => u128::MAX,
                2 => u64::MAX as u128 + 1,
                _ => ((rng.next() as u128) << 64) | rng.next() as u128,
            },
        }
    }
}
impl Same for i128 {
    fn same(&self, o: &Self) -> bool {
        self == o
    }
    fn render(&self) -> String {
        format!("{}", self)
    }
}
impl Val for i128 {
    fn gen(rng: &mut Rng, dom: Dom) -> Self {
        match dom.kind {
            Kind::Tiny => [0i128, -1, 7][rng.below(3)],
            _ if dom.json_safe => rng.next() as i64 as i128,
            _ => match rng.below(5) {
                0 => 0,
                1 => i128::MAX,
                2 => i128::MIN,
                _ => (((rng.next() as u128) << 64) | rng.next() as u128) as i128,
            },
        }
    }
}

impl Same for usize {
    fn same(&self, o: &Self) -> bool {
        self == o
    }
    fn render(&self) -> String {
        format!("{}", self)
    }
}
/// Values that exercise the index containers when a `usize` flows through them.
pub const USIZE_HOSTILE: [usize; 12] = [
    0,
    1,
    2,
    3,
    u32::MAX as usize - 1,
    u32::MAX as usize,
    u32::MAX as usize + 1,
    1 << 33,
    1 << 63,
    usize::MAX - 1,
    usize::MAX,
    (1 << 63) + 1,
];
impl Val for usize {
    fn gen(rng: &mut Rng, dom: Dom) -> Self {
        match dom.kind {
            Kind::Tiny => [0usize, 1, 2][rng.below(3)],
            _ => match rng.below(4) {
                0 => *rng.pick(&USIZE_HOSTILE),
                1 => rng.below(16),
                2 => rng.next() as u32 as usize,
                _ => rng.next() as usize,
            },
        }
    }
    /// Stride prefixes, saturation tails, breaks, u32->u64 switches.
    fn gen_run(rng: &mut Rng, dom: Dom, n: usize) -> Vec<Self> {
        let mut out = Vec::with_capacity(n);
        if rng.chance(1, 5) {
            for _ in 0..n {
                out.push(Self::gen(rng, dom));
            }
            return out;
        }
        let stride: usize = match rng.below(9) {
            0 => 0,
            1 => 1,
            2 => rng.range(2, 9),
            3 => 1 << 31,
            4 => 1 << 62,
            // strides whose next multiple does not fit in a usize
            5 => 1 << 63,
            6 => usize::MAX,
            7 => (1 << 63) + rng.below(3),
            _ => rng.next() as u32 as usize,
        };
        let start_zero = rng.chance(5, 6);
        let strided = if start_zero { rng.range(0, n) } else { 0 };
        let mut last = 0usize;
        for k in 0..strided {
            last = stride.wrapping_mul(k);
            out.push(last);
        }
        let reps = if out.is_empty() { 0 } else { rng.range(0, n - out.len()) };
        for _ in 0..reps {
            out.push(last);
        }
        while out.len() < n {
            let v = match rng.below(7) {
                0 => last,
                1 => last.wrapping_add(stride),
                2 => *rng.pick(&USIZE_HOSTILE),
                3 => rng.below(8),
                4 => usize::MAX,
                5 => last.saturating_add(stride),
                _ => rng.next() as usize,
            };
            last = v;
            out.push(v);
        }
        out
    }
}

macro_rules! float_val {
    ($t:ty, $bits:ty) => {
        impl Same for $t {
            /// Bit-identical, or equal under `==` (so that 0.0 / -0.0, which the crate's
            /// deduplication legitimately identifies, are not told apart; NaNs compare by bits).
            fn same(&self, o: &Self) -> bool {
                self.to_bits() == o.to_bits() || self == o
            }
            fn render(&self) -> String {
                format!("{:?}#{:x}", self, self.to_bits())
            }
        }
        impl Val for $t {
            fn gen(rng: &mut Rng, dom: Dom) -> Self {
                if dom.json_safe {
                    // exactly representable, short decimal expansions
                    return ((rng.below(4001) as i64 - 2000) as $t) / 8.0;
                }
                match dom.kind {
                    Kind::Tiny => [0.0 as $t, 1.5, <$t>::NAN][rng.below(3)],
                    _ => match rng.below(9) {
                        0 => 0.0,
                        1 => -0.0,
                        2 => <$t>::NAN,
                        3 => <$t>::from_bits(<$t>::NAN.to_bits() | 1),
                        4 => <$t>::INFINITY,
                        5 => <$t>::NEG_INFINITY,
                        6 => <$t>::MIN_POSITIVE,
                        7 => <$t>::MAX,
                        _ => <$t>::from_bits(rng.next() as $bits),
                    },
                }
            }
        }
    };
}
float_val!(f32, u32);
float_val!(f64, u64);

impl Same for bool {
    fn same(&self, o: &Self) -> bool {
        self == o
    }
    fn render(&self) -> String {
        format!("{}", self)
    }
}
impl Val for bool {
    fn gen(rng: &mut Rng, _dom: Dom) -> Self {
        rng.chance(1, 2)
    }
}

impl Same for () {
    fn same(&self, _o: &Self) -> bool {
        true
    }
    fn render(&self) -> String {
        "()".into()
    }
}
impl Val for () {
    fn gen(_rng: &mut Rng, _dom: Dom) -> Self {}
}

impl Same for char {
    fn same(&self, o: &Self) -> bool {
        self == o
    }
    fn render(&self) -> String {
        format!("{:?}", self)
    }
}
impl Val for char {
    fn gen(rng: &mut Rng, dom: Dom) -> Self {
        match dom.kind {
            Kind::Tiny => ['a', 'é', '😀'][rng.below(3)],
            _ => *rng.pick(&['\0', 'a', 'é', '€', '😀', '\u{10FFFF}', '\u{D7FF}', '\u{E000}', '\u{301}', '\u{7f}', '\u{80}']),
        }
    }
}

impl Same for Duration {
    fn same(&self, o: &Self) -> bool {
        self == o
    }
    fn render(&self) -> String {
        format!("{:?}", self)
    }
}
impl Val for Duration {
    fn gen(rng: &mut Rng, dom: Dom) -> Self {
        match dom.kind {
            Kind::Tiny => [Duration::ZERO, Duration::from_nanos(1), Duration::from_secs(3)][rng.below(3)],
            _ => match rng.below(4) {
                0 => Duration::ZERO,
                1 => Duration::MAX,
                2 => Duration::new(rng.next(), 999_999_999),
                _ => Duration::new(rng.next() >> 20, (rng.next() % 1_000_000_000) as u32),
            },
        }
    }
}

impl<T: Same> Same for Wrapping<T> {
    fn same(&self, o: &Self) -> bool {
        self.0.same(&o.0)
    }
    fn render(&self) -> String {
        format!("W({})", self.0.render())
    }
}
impl<T: Val> Val for Wrapping<T> {
    fn gen(rng: &mut Rng, dom: Dom) -> Self {
        Wrapping(T::gen(rng, dom))
    }
}

// ---------------------------------------------------------------- strings

/// Strings whose concatenations offer many invalid split points.
pub const STR_HOSTILE: [&str; 26] = [
    "",
    "a",
    "é",           // 2 bytes
    "€",           // 3 bytes
    "😀",          // 4 bytes
    "e\u{301}",    // combining sequence
    "\u{301}",     // lone combining mark
    "aé",
    "éa",
    "€€",
    "😀é",
    "é😀",
    "a😀€é",
    "\u{7ff}\u{800}",
    "\u{ffff}\u{10000}",
    "\u{10FFFF}",
    "\u{D7FF}\u{E000}",
    "\0",
    "\0abc",
    "abc",
    "abcabc",
    "bc",
    "ñandú",
    "日本語",
    "👩\u{200d}👩\u{200d}👧",
    "\u{80}\u{7f}",
];

impl Same for String {
    fn same(&self, o: &Self) -> bool {
        self.as_bytes() == o.as_bytes()
    }
    fn render(&self) -> String {
        clip(format!("{:?}", self))
    }
}
impl Val for String {
    fn gen(rng: &mut Rng, dom: Dom) -> Self {
        match dom.kind {
            Kind::Tiny => ["", "a", "é😀"][rng.below(3)].to_string(),
            Kind::Hostile => match rng.below(6) {
                0 => {
                    // concatenation of 2-3 hostile pieces
                    let mut s = String::new();
                    for _ in 0..rng.range(2, 3) {
                        s.push_str(STR_HOSTILE[rng.below(STR_HOSTILE.len())]);
                    }
                    s
                }
                1 => {
                    let n = rng.below(6);
                    (0..n).map(|_| char::gen(rng, dom)).collect()
                }
                _ => STR_HOSTILE[rng.below(STR_HOSTILE.len())].to_string(),
            },
            Kind::Long => {
                let n = if dom.depth == 0 && rng.chance(1, 24) { rng.range(4000, 70_000) } else { rng.range(0, 40 * dom.max_len().min(40)) };
                let piece = STR_HOSTILE[1 + rng.below(STR_HOSTILE.len() - 1)];
                let mut s = String::new();
                while s.len() < n {
                    s.push_str(piece);
                    if rng.chance(1, 3) {
                        s.push_str(STR_HOSTILE[rng.below(STR_HOSTILE.len())]);
                    }
                }
                s
            }
        }
    }
    fn scale(&self, k: usize) -> Self {
        self.repeat(k)
    }
    fn sibling(&self) -> Self {
        self.repeat(2)
    }
    fn is_empty_container(&self) -> bool {
        self.is_empty()
    }
}

// ---------------------------------------------------------------- containers

/// A vector of `n` zero-sized elements, built in O(1).
pub fn zst_vec<T>(n: usize) -> Vec<T> {
    assert_eq!(std::mem::size_of::<T>(), 0);
    let mut v: Vec<T> = Vec::new();
    // SAFETY: T is zero-sized (the harness only uses `()`), so no memory needs initialising
    // and the capacity of a ZST vector is usize::MAX.
    unsafe { v.set_len(n) };
    v
}

impl<T: Same> Same for Vec<T> {
    fn same(&self, o: &Self) -> bool {
        if std::mem::size_of::<T>() == 0 {
            return self.len() == o.len();
        }
        self.len() == o.len() && self.iter().zip(o.iter()).all(|(a, b)| a.same(b))
    }
    fn render(&self) -> String {
        let mut s = String::from("[");
        for (i, x) in self.iter().enumerate() {
            if i > 0 {
                s.push_str(", ");
            }
            if s.len() > 90 {
                s.push_str(&format!("…(len {})", self.len()));
                break;
            }
            s.push_str(&x.render());
        }
        s.push(']');
        clip(s)
    }
}
impl<T: Val> Val for Vec<T> {
    fn gen(rng: &mut Rng, dom: Dom) -> Self {
        let max = dom.max_len();
        if T::is_zst() && dom.kind != Kind::Tiny && dom.depth == 0 && !dom.json_safe && rng.chance(1, 4) {
            // zero-sized elements: lengths beyond u32::MAX are free of charge
            let n = match rng.below(4) {
                0 => (1usize << 32) + rng.below(5),
                1 => 1usize << 33,
                2 => u32::MAX as usize,
                _ => rng.below(1 << 20),
            };
            return zst_vec(n);
        }
        let n = match rng.below(6) {
            0 => 0,
            1 => max.min(1),
            _ => rng.range(0, max),
        };
        // rarely, a top-level container well beyond 255 elements (u8-sized length fields, small
        // fixed buffers and the like only show up there)
        let n = if dom.kind == Kind::Long && dom.depth == 0 && rng.chance(1, 24) { rng.range(256, 700) } else { n };
        T::gen_run(rng, dom.deeper(), n)
    }
    fn scale(&self, k: usize) -> Self {
        if T::is_zst() {
            return self.clone();
        }
        self.iter().map(|x| x.scale(k)).collect()
    }
    fn sibling(&self) -> Self {
        if T::is_zst() || self.len() > 4096 {
            return self.clone();
        }
        let mapped: Vec<T> = self.iter().map(|x| x.sibling()).collect();
        if mapped.iter().zip(self.iter()).all(|(a, b)| a.same(b)) {
            // a sequence of scalars: double it
            let mut d = self.clone();
            d.extend(self.iter().cloned());
            d
        } else {
            mapped
        }
    }
    fn peq(&self, o: &Self) -> bool {
        if T::is_zst() {
            return self.len() == o.len();
        }
        self.len() == o.len() && self.iter().zip(o.iter()).all(|(a, b)| a.peq(b))
    }
    fn width(&self) -> usize {
        self.len()
    }
    fn is_empty_container(&self) -> bool {
        self.is_empty()
    }
}

impl<T: Same> Same for Option<T> {
    fn same(&self, o: &Self) -> bool {
        match (self, o) {
            (Some(a), Some(b)) => a.same(b),
            (None, None) => true,
            _ => false,
        }
    }
    fn render(&self) -> String {
        match self {
            Some(a) => format!("Some({})", a.render()),
            None => "None".into(),
        }
    }
}
impl<T: Val> Val for Option<T> {
    fn gen(rng: &mut Rng, dom: Dom) -> Self {
        if rng.chance(1, 3) {
            None
        } else {
            Some(T::gen(rng, dom))
        }
    }
    fn scale(&self, k: usize) -> Self {
        self.as_ref().map(|x| x.scale(k))
    }
    fn sibling(&self) -> Self {
        self.as_ref().map(|x| x.sibling())
    }
}

impl<T: Same, E: Same> Same for Result<T, E> {
    fn same(&self, o: &Self) -> bool {
        match (self, o) {
            (Ok(a), Ok(b)) => a.same(b),
            (Err(a), Err(b)) => a.same(b),
            _ => false,
        }
    }
    fn render(&self) -> String {
        match self {
            Ok(a) => format!("Ok({})", a.render()),
            Err(a) => format!("Err({})", a.render()),
        }
    }
}
impl<T: Val, E: Val> Val for Result<T, E> {
    fn gen(rng: &mut Rng, dom: Dom) -> Self {
        if rng.chance(1, 2) {
            Ok(T::gen(rng, dom))
        } else {
            Err(E::gen(rng, dom))
        }
    }
    fn scale(&self, k: usize) -> Self {
        match self {
            Ok(a) => Ok(a.scale(k)),
            Err(a) => Err(a.scale(k)),
        }
    }
    fn sibling(&self) -> Self {
        match self {
            Ok(a) => Ok(a.sibling()),
            Err(a) => Err(a.sibling()),
        }
    }
}

macro_rules! tuple_val {
    ($($n:ident $i:tt),+) => {
        impl<$($n: Same),+> Same for ($($n,)+) {
            fn same(&self, o: &Self) -> bool { $(self.$i.same(&o.$i))&&+ }
            fn render(&self) -> String {
                let parts: Vec<String> = vec![$(self.$i.render()),+];
                clip(format!("({})", parts.join(", ")))
            }
        }
        impl<$($n: Val),+> Val for ($($n,)+) {
            fn gen(rng: &mut Rng, dom: Dom) -> Self { ($($n::gen(rng, dom),)+) }
            fn scale(&self, k: usize) -> Self { ($(self.$i.scale(k),)+) }
            fn sibling(&self) -> Self { ($(self.$i.sibling(),)+) }
        }
    };
}
tuple_val!(A 0);
tuple_val!(A 0, B 1);
tuple_val!(A 0, B 1, C 2);
tuple_val!(A 0, B 1, C 2, D 3);
tuple_val!(A 0, B 1, C 2, D 3, E 4, F 5, G 6, H 7, I 8, J 9, K 10, L 11);
