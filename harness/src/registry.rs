//! The dynamic view of the catalogue: one record per entry with its capability flags and a
//! dispatcher into the generic monitors.

use crate::catalogue::*;
use crate::driver::Ctx;
use crate::entry::{Entry, Idx, IdxC};
use crate::monitors;
use flatcontainer::Region;

#[derive(Clone, Copy, Debug)]
pub struct Flags {
    pub clone: bool,
    pub serde: bool,
    pub reserve_items: bool,
    pub reserve_forms: usize,
    pub heap: bool,
    pub reserve_regions: bool,
    pub idx_usize: bool,
    pub dense: bool,
    pub collapse_top: bool,
    pub coded: bool,
    pub stringy: bool,
    pub structural: bool,
    pub json_lossless: bool,
    pub model: bool,
    pub collapse_nodes: usize,
    pub dense_nodes: usize,
}

pub struct Dyn {
    pub label: &'static str,
    pub forms: Vec<&'static str>,
    pub flags: Flags,
    /// region-level monitors
    pub run: fn(&str, &mut Ctx),
    /// FlatStack-level monitors; `variant` selects the index container
    pub run_stack: fn(&str, &mut Ctx, usize),
    /// number of index containers `run_stack` can use (1 or 3)
    pub stack_variants: usize,
}

fn flags<E: Entry>() -> Flags {
    let (c, d) = E::walk_nodes();
    Flags {
        clone: E::can_clone(),
        serde: E::can_serde(),
        reserve_items: E::can_reserve_items(),
        reserve_forms: E::reserve_form_count(),
        heap: E::can_heap(),
        reserve_regions: E::can_reserve_regions(),
        idx_usize: E::idx_is_usize(),
        dense: E::dense(),
        collapse_top: E::collapse_top(),
        coded: E::coded(),
        stringy: E::stringy(),
        structural: E::structural(),
        json_lossless: E::json_lossless(),
        model: E::min_used(&[]).is_some(),
        collapse_nodes: c,
        dense_nodes: d,
    }
}

fn stack_vec<E: Entry>(prop: &str, ctx: &mut Ctx, _variant: usize)
where
    Vec<Idx<E>>: IdxC<Idx<E>>,
{
    monitors::dispatch_stack::<E, Vec<Idx<E>>>(prop, ctx)
}

fn stack_usize<E: Entry>(prop: &str, ctx: &mut Ctx, variant: usize)
where
    E::R: Region<Index = usize>,
{
    match variant % 3 {
        0 => monitors::dispatch_stack::<E, Vec<usize>>(prop, ctx),
        1 => monitors::dispatch_stack::<E, IO>(prop, ctx),
        _ => monitors::dispatch_stack::<E, IL>(prop, ctx),
    }
}

macro_rules! reg {
    ($v:ident; $($e:ident),* ; usize: $($u:ident),*) => {
        $( $v.push(Dyn { label: <$e as Entry>::label(), forms: <$e as Entry>::form_names(), flags: flags::<$e>(),
            run: monitors::dispatch::<$e>, run_stack: stack_vec::<$e>, stack_variants: 1 }); )*
        $( $v.push(Dyn { label: <$u as Entry>::label(), forms: <$u as Entry>::form_names(), flags: flags::<$u>(),
            run: monitors::dispatch::<$u>, run_stack: stack_usize::<$u>, stack_variants: 3 }); )*
    };
}

pub fn registry() -> Vec<Dyn> {
    let mut v = Vec::new();
    reg!(v;
        EString, EStringDict, EStringLearn, ECollapseString, ECollapseStringDict,
        EOwnedU8, EOwnedU64, EOwnedUnit, EOwnedString, ECollapseOwnedU8, ECollapseOwnedUnit,
        EMirrorU8, EMirrorU64, EMirrorI128, EMirrorF64, EMirrorF32, EMirrorChar, EMirrorBool, EMirrorUnit,
        EMirrorDuration, EMirrorWrapping, ECollapseMirrorU8, ECollapseMirrorF64,
        ECodecDict, ECodecLearn, EHuffmanU8, EHuffmanU16, ECollapseHuffmanU8,
        EOptionString, EOptionMirrorU8, EOptionOptionU8, EOptionCollapseString,
        EResultStringU8, EResultOwnedString, EResultPref,
        ETuple1String, ETuple2, ETuple3Collapse, ETuple12, EPrefNested,
        ESliceMirrorU8, ESliceMirrorUsizeOpt, ESliceMirrorUsizeList, ESliceString, ESliceOwnedU8,
        ESlicePairsString, ESlicePairsStringVec, ESlicePairsStringList, ESliceSliceU8, ESliceSliceString, ESlice3U8,
        ESliceOptionString, ESliceTuple, ESliceResult, ESliceVecU32, ESliceHuffman, ESliceStringDict, ESliceColumns,
        ESliceCollapsePairsString, ESliceCollapseString, ESliceColumnsTuple,
        ESliceStringPairsOwned, EOptionSliceU8, EResultSliceColumns, ETupleSliceOption,
        ESliceVecU32Vec, EOptionVecU32, EResultVecVec, EResultCollapse
        ; usize:
        EPairsString, EPairsStringVec, EPairsStringList, EPairsStringDict,
        ECollapsePairsString, ECollapsePairsStringList,
        EPairsOwnedU8, EPairsOwnedU8Vec, EPairsOwnedUnit, EPairsOwnedUnitList, ECollapsePairsOwnedU8,
        EMirrorUsize, EVecU32, EVecString, ECollapseVecU32,
        EPairsCodecLearn, EPairsHuffmanU8,
        EColumnsMirrorU8, EColumnsMirrorU8Vec, EColumnsMirrorU8List, EColumnsString, EColumnsPairsString,
        EColumnsOwnedU8, EColumnsSliceU8, EColumnsColumns, EColumnsOptionString, EColumnsCollapsePairsString,
        EStringPairsOwned, EColumnsVecU32, EColumnsHuffman, EColumnsStringDict, EPairsSliceU8, EPairsSliceString
    );
    v
}
