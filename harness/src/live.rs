//! A live region under observation together with its trivial model: the list of issued
//! (index, value) pairs since creation / the last clear.

use crate::check::Lvl;
use crate::driver::Ctx;
use crate::entry::{Entry, Idx};
use crate::panics;
use crate::val::Same;
use flatcontainer::Region;

#[derive(Clone, Copy, Debug, Default, PartialEq, Eq)]
pub struct Heap {
    pub used: usize,
    pub cap: usize,
    pub pairs: usize,
    /// number of pairs with used > capacity
    pub bad_pairs: usize,
}

pub fn heap_of<R: Region>(r: &R) -> Heap {
    let mut h = Heap::default();
    r.heap_size(|u, c| {
        h.used += u;
        h.cap += c;
        h.pairs += 1;
        if u > c {
            h.bad_pairs += 1;
        }
    });
    h
}

/// The list of individual (used, capacity) pairs, in callback order.
pub fn heap_pairs<R: Region>(r: &R) -> Vec<(usize, usize)> {
    let mut v = Vec::new();
    r.heap_size(|u, c| v.push((u, c)));
    v
}

pub struct Live<E: Entry> {
    pub r: E::R,
    pub aux: E::R,
    aux_items: usize,
    pub issued: Vec<(Idx<E>, E::V)>,
    /// short name used in log lines ("a", "twin", ...)
    pub tag: &'static str,
}

impl<E: Entry> Live<E> {
    pub fn new(tag: &'static str) -> Self {
        Self::from_region(tag, E::R::default())
    }
    pub fn from_region(tag: &'static str, r: E::R) -> Self {
        Live { r, aux: E::R::default(), aux_items: 0, issued: Vec::new(), tag }
    }
    /// A region obtained from `merge_regions` over one source that absorbed `pool`
    /// (for coded regions this is what "covered by the statistics" means).
    pub fn trained(tag: &'static str, ctx: &mut Ctx, pool: &[E::V]) -> Option<Self> {
        let src = panics::catch(|| {
            let mut src = E::R::default();
            let mut aux = E::R::default();
            for v in pool {
                let _ = E::push(&mut src, v, 0, &mut aux);
            }
            src
        });
        let src = match src {
            Ok(s) => s,
            Err(p) => {
                ctx.log(format!("feeding the source region for {tag} ({} values) PANICKED", pool.len()));
                ctx.fail_panic("push", &p);
                return None;
            }
        };
        let res = panics::catch(|| E::R::merge_regions(std::iter::once(&src)));
        match res {
            Ok(r) => {
                ctx.log(format!("{tag} = merge_regions([source fed {} values])", pool.len()));
                Some(Self::from_region(tag, r))
            }
            Err(p) => {
                ctx.log(format!("{tag} = merge_regions([source fed {} values]) PANICKED", pool.len()));
                ctx.fail_panic("merge_regions", &p);
                None
            }
        }
    }

    /// Feeds `vals` to the auxiliary region from which the "read item of another region" form
    /// takes its items, so that this other region is not just a subset of what `self.r` holds
    /// (wider rows, other offsets, more columns than the receiver).
    pub fn prefill_aux(&mut self, vals: &[E::V]) {
        let aux = &mut self.aux;
        let _ = panics::catch(|| {
            let mut dummy = E::R::default();
            for v in vals {
                let _ = E::push(aux, v, 0, &mut dummy);
            }
        });
    }

    pub fn nforms() -> usize {
        E::form_names().len()
    }

    /// Pushes `v` in `form`; a panic is a violation (callers only push within contract).
    pub fn push(&mut self, ctx: &mut Ctx, v: &E::V, form: usize) -> Option<Idx<E>> {
        if self.aux_items > 48 {
            self.aux.clear();
            self.aux_items = 0;
        }
        self.aux_items += 1;
        let r = &mut self.r;
        let aux = &mut self.aux;
        let res = panics::catch(|| E::push(r, v, form, aux));
        match res {
            Ok(idx) => {
                ctx.log(format!("{}.push[{}]({}) -> {}", self.tag, E::form_names()[form], v.render(), E::idx_render(&idx)));
                self.issued.push((idx, v.clone()));
                Some(idx)
            }
            Err(p) => {
                ctx.log(format!("{}.push[{}]({}) PANICKED", self.tag, E::form_names()[form], v.render()));
                ctx.fail_panic("push", &p);
                None
            }
        }
    }

    /// Like `push` but a panic is reported to the caller instead of being a violation.
    pub fn try_push(&mut self, ctx: &mut Ctx, v: &E::V, form: usize) -> Result<Idx<E>, panics::Panic> {
        self.aux_items += 1;
        let r = &mut self.r;
        let aux = &mut self.aux;
        match panics::catch(|| E::push(r, v, form, aux)) {
            Ok(idx) => {
                ctx.log(format!("{}.push[{}]({}) -> {}", self.tag, E::form_names()[form], v.render(), E::idx_render(&idx)));
                self.issued.push((idx, v.clone()));
                Ok(idx)
            }
            Err(p) => {
                ctx.log(format!("{}.push[{}]({}) refused: {}", self.tag, E::form_names()[form], v.render(), p.short()));
                Err(p)
            }
        }
    }

    /// Re-reads issued index `k` and sweeps all accessors against the model value.
    pub fn check_one(&self, ctx: &mut Ctx, k: usize, lvl: Lvl, kind: &str) -> bool {
        let (idx, v) = &self.issued[k];
        let r = &self.r;
        match panics::catch(|| E::check(r.index(*idx), v, lvl)) {
            Ok(Ok(())) => true,
            Ok(Err(e)) => {
                ctx.log(format!("{}.index({}) [push #{k}] MISMATCH", self.tag, E::idx_render(idx)));
                ctx.fail(
                    kind,
                    format!("{}: index {} (push #{k} of {}) should read {}: {e}", self.tag, E::idx_render(idx), self.issued.len(), v.render()),
                );
                false
            }
            Err(p) => {
                ctx.log(format!("{}.index({}) [push #{k}] PANICKED", self.tag, E::idx_render(idx)));
                ctx.fail(
                    &format!("{kind}:read-panic:{}", p.file()),
                    format!("{}: reading index {} (push #{k}, value {}) panicked: {}", self.tag, E::idx_render(idx), v.render(), p.short()),
                );
                false
            }
        }
    }

    pub fn check_all(&self, ctx: &mut Ctx, lvl: Lvl, kind: &str) -> bool {
        for k in 0..self.issued.len() {
            if !self.check_one(ctx, k, lvl, kind) {
                return false;
            }
        }
        true
    }

    pub fn clear(&mut self, ctx: &mut Ctx) -> bool {
        let r = &mut self.r;
        match panics::catch(|| r.clear()) {
            Ok(()) => {
                ctx.log(format!("{}.clear()", self.tag));
                self.issued.clear();
                true
            }
            Err(p) => {
                ctx.log(format!("{}.clear() PANICKED", self.tag));
                ctx.fail_panic("clear", &p);
                false
            }
        }
    }

    pub fn heap(&self) -> Option<Heap> {
        if E::can_heap() {
            Some(heap_of(&self.r))
        } else {
            None
        }
    }
}

/// Draws a value pool for one history.
pub fn gen_pool<E: Entry>(ctx: &mut Ctx, dom: crate::val::Dom, n: usize) -> Vec<E::V> {
    use crate::val::Val;
    <E::V as Val>::gen_run(&mut ctx.rng, dom, n)
}
