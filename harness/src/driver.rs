//! Jobs, per-history context, violation collection, worker pool, result file.

use crate::rng::{hash_bytes, Rng};
use serde_json::{json, Value};
use std::collections::{BTreeMap, BTreeSet, HashSet};
use std::sync::atomic::{AtomicUsize, Ordering};
use std::sync::Mutex;
use std::time::{Duration, Instant};

#[derive(Clone, Copy, Debug, PartialEq, Eq)]
pub enum Tier {
    Quick,
    Thorough,
    /// tiny budgets for the interpreter tier
    Miri,
}

impl Tier {
    pub fn name(&self) -> &'static str {
        match self {
            Tier::Quick => "quick",
            Tier::Thorough => "thorough",
            Tier::Miri => "miri",
        }
    }
    /// picks a budget by tier
    pub fn pick(&self, quick: u64, thorough: u64, miri: u64) -> u64 {
        match self {
            Tier::Quick => quick,
            Tier::Thorough => thorough,
            Tier::Miri => miri,
        }
    }
}

#[derive(Clone, Debug)]
pub struct Violation {
    pub prop: String,
    pub sig: String,
    pub entry: String,
    pub kind: String,
    pub msg: String,
    pub profile: String,
    pub seed: u64,
    pub job: String,
    pub hist_no: u64,
    pub log: Vec<String>,
}

impl Violation {
    pub fn to_json(&self) -> Value {
        json!({
            "property": self.prop, "signature": self.sig, "entry": self.entry, "kind": self.kind,
            "message": self.msg, "profile": self.profile, "seed": self.seed, "job": self.job,
            "hist_no": self.hist_no, "history": self.log,
        })
    }
}

#[derive(Default)]
pub struct Report {
    pub evaluations: u64,
    pub nontrivial: HashSet<u64>,
    /// cases that are distinct by construction (exhaustive enumerations), counted not hashed
    pub nontrivial_counted: u64,
    pub counters: BTreeMap<String, u64>,
    pub samples: Vec<Value>,
    pub violations: BTreeMap<String, Violation>,
    pub violation_count: u64,
    pub notes: BTreeSet<String>,
    pub entries: BTreeSet<String>,
    pub covered: BTreeSet<String>,
    pub digest: u64,
}

impl Report {
    pub fn merge(&mut self, o: Report) {
        self.evaluations += o.evaluations;
        self.nontrivial.extend(o.nontrivial);
        self.nontrivial_counted += o.nontrivial_counted;
        for (k, v) in o.counters {
            *self.counters.entry(k).or_insert(0) += v;
        }
        for s in o.samples {
            if self.samples.len() < 12 {
                self.samples.push(s);
            }
        }
        for (k, v) in o.violations {
            self.violations.entry(k).or_insert(v);
        }
        self.violation_count += o.violation_count;
        self.notes.extend(o.notes);
        self.entries.extend(o.entries);
        self.covered.extend(o.covered);
        self.digest ^= o.digest;
    }
}

pub struct Ctx<'a> {
    pub prop: &'static str,
    pub entry: String,
    pub job: String,
    /// workload name within the property
    pub what: String,
    pub seed: u64,
    pub tier: Tier,
    pub profile: &'a str,
    pub hist_no: u64,
    pub rng: Rng,
    pub rep: &'a mut Report,
    pub log: Vec<String>,
    pub nontrivial: bool,
    pub failed: bool,
    pub verbose: bool,
}

impl<'a> Ctx<'a> {
    #[inline]
    pub fn log(&mut self, s: String) {
        if self.verbose {
            eprintln!("    {s}");
        }
        if self.log.len() < 4000 {
            self.log.push(s);
        } else if self.log.len() == 4000 {
            self.log.push("… (log truncated)".into());
        }
    }
    #[inline]
    pub fn hit(&mut self, key: &str) {
        self.count(key, 1);
    }
    #[inline]
    pub fn count(&mut self, key: &str, n: u64) {
        if let Some(c) = self.rep.counters.get_mut(key) {
            *c += n;
        } else {
            self.rep.counters.insert(key.to_string(), n);
        }
    }
    /// Marks a coverage class as observed (gates are sets of required classes).
    #[inline]
    pub fn cover(&mut self, class: &str) {
        if !self.rep.covered.contains(class) {
            self.rep.covered.insert(class.to_string());
        }
    }
    pub fn note(&mut self, s: String) {
        self.rep.notes.insert(s);
    }
    /// An order-independent digest of observations, compared across build profiles by `check`.
    pub fn digest(&mut self, bytes: &[u8]) {
        self.rep.digest ^= crate::rng::mix(hash_bytes(self.hist_no ^ crate::rng::hash_str(&self.job), bytes));
    }
    /// Records a violation of this job's property. `kind` is the stable part of the signature.
    pub fn fail(&mut self, kind: &str, msg: String) {
        self.fail_for(self.prop, kind, msg)
    }
    pub fn fail_for(&mut self, prop: &str, kind: &str, msg: String) {
        self.failed = true;
        self.rep.violation_count += 1;
        let sig = sanitize(&format!("{}|{}|{}", prop, self.entry, kind));
        if self.verbose {
            eprintln!("  VIOLATION {sig}: {msg}");
        }
        if !self.rep.violations.contains_key(&sig) {
            let mut log = self.log.clone();
            if log.len() > 400 {
                let tail = log.split_off(log.len() - 300);
                log.truncate(60);
                log.push("… (middle of the history omitted; --replay prints all of it)".into());
                log.extend(tail);
            }
            self.rep.violations.insert(
                sig.clone(),
                Violation {
                    prop: prop.to_string(),
                    sig,
                    entry: self.entry.clone(),
                    kind: kind.to_string(),
                    msg,
                    profile: self.profile.to_string(),
                    seed: self.seed,
                    job: self.job.clone(),
                    hist_no: self.hist_no,
                    log,
                },
            );
        }
    }
    /// A panic inside an operation that the model says is within contract.
    pub fn fail_panic(&mut self, op: &str, p: &crate::panics::Panic) {
        let kind = format!("panic:{}:{}", op, p.file());
        self.fail(&kind, format!("{op} panicked: {}", p.short()));
    }
    /// Ends a history: counts it, records its hash if it was non-trivial.
    pub fn end_history(&mut self) {
        self.rep.evaluations += 1;
        if self.nontrivial {
            let mut h = crate::rng::hash_str(&self.entry);
            for l in &self.log {
                h = hash_bytes(h, l.as_bytes());
            }
            self.rep.nontrivial.insert(h);
            if self.rep.samples.len() < 3 && !self.log.is_empty() {
                let ops: Vec<&String> = self.log.iter().take(14).collect();
                self.rep.samples.push(json!({"entry": self.entry, "job": self.job, "history": ops, "ops_total": self.log.len()}));
            }
        }
        self.log.clear();
        self.nontrivial = false;
        self.failed = false;
    }
}

pub fn sanitize(s: &str) -> String {
    s.chars()
        .map(|c| if c.is_ascii_alphanumeric() || "|:._-<>@,+=".contains(c) { c } else { '_' })
        .collect()
}

pub type JobFn = Box<dyn Fn(&mut Ctx) + Send + Sync>;

pub struct Job {
    /// catalogue entry label, or a free-form label for stand-alone workloads
    pub entry: String,
    /// label distinguishing the workload within the entry
    pub what: String,
    pub hist_no: u64,
    pub f: JobFn,
}

pub struct RunCfg {
    pub prop: &'static str,
    pub seed: u64,
    pub tier: Tier,
    pub profile: String,
    pub threads: usize,
    pub watchdog: Duration,
    pub verbose: bool,
}

pub struct RunOut {
    pub report: Report,
    pub wall_s: f64,
    pub timed_out: bool,
    pub jobs: usize,
}

pub fn run_jobs(cfg: &RunCfg, jobs: Vec<Job>) -> RunOut {
    let start = Instant::now();
    let next = AtomicUsize::new(0);
    let done = AtomicUsize::new(0);
    let merged = Mutex::new(Report::default());
    let current: Mutex<BTreeMap<usize, String>> = Mutex::new(BTreeMap::new());
    let njobs = jobs.len();
    let threads = cfg.threads.max(1).min(njobs.max(1));
    let mut timed_out = false;
    std::thread::scope(|scope| {
        for t in 0..threads {
            let jobs = &jobs;
            let next = &next;
            let done = &done;
            let merged = &merged;
            let current = &current;
            std::thread::Builder::new()
                .name(format!("w{t}"))
                .stack_size(64 << 20)
                .spawn_scoped(scope, move || {
                    crate::panics::install();
                    let mut rep = Report::default();
                    loop {
                        let i = next.fetch_add(1, Ordering::SeqCst);
                        if i >= jobs.len() {
                            break;
                        }
                        let job = &jobs[i];
                        current.lock().unwrap().insert(t, format!("{} / {} #{}", job.entry, job.what, job.hist_no));
                        rep.entries.insert(job.entry.clone());
                        let label = format!("{}/{}", job.entry, job.what);
                        let mut ctx = Ctx {
                            prop: cfg.prop,
                            entry: job.entry.clone(),
                            job: label.clone(),
                            what: job.what.clone(),
                            seed: cfg.seed,
                            tier: cfg.tier,
                            profile: &cfg.profile,
                            hist_no: job.hist_no,
                            rng: Rng::derive(cfg.seed, &[cfg.prop, &label], job.hist_no),
                            rep: &mut rep,
                            log: Vec::new(),
                            nontrivial: false,
                            failed: false,
                            verbose: cfg.verbose,
                        };
                        // a panic escaping a monitor is a harness error, never a verdict
                        let r = crate::panics::catch(|| (job.f)(&mut ctx));
                        if let Err(p) = r {
                            rep.notes.insert(format!("harness error in job {label} #{}: {}", job.hist_no, p.short()));
                        }
                        let (reads, oob, strs) = crate::check::take_stats();
                        *rep.counters.entry("reads_verified".into()).or_insert(0) += reads;
                        *rep.counters.entry("oob_probes".into()).or_insert(0) += oob;
                        if strs > 0 {
                            *rep.counters.entry("strings_decoded".into()).or_insert(0) += strs;
                        }
                        let probe = flatcontainer::verif::take_report();
                        *rep.counters.entry("utf8_probe_events".into()).or_insert(0) += probe.probes;
                        if probe.invalid > 0 {
                            // only C04 turns this into a verdict; others just record it
                            *rep.counters.entry("utf8_probe_invalid".into()).or_insert(0) += probe.invalid;
                        }
                        done.fetch_add(1, Ordering::SeqCst);
                    }
                    current.lock().unwrap().remove(&t);
                    merged.lock().unwrap().merge(rep);
                })
                .expect("spawn worker");
        }
        // watchdog: generous wall-clock limit; firing is inconclusive, never a violation
        loop {
            if done.load(Ordering::SeqCst) >= njobs {
                break;
            }
            if start.elapsed() > cfg.watchdog {
                timed_out = true;
                let cur = current.lock().unwrap().clone();
                eprintln!("INCONCLUSIVE watchdog fired after {:?}; running jobs: {:?}", cfg.watchdog, cur);
                println!("INCONCLUSIVE property={} reason=watchdog running={:?}", cfg.prop, cur);
                std::process::exit(2);
            }
            std::thread::sleep(Duration::from_millis(20));
        }
    });
    let report = merged.into_inner().unwrap();
    RunOut { report, wall_s: start.elapsed().as_secs_f64(), timed_out, jobs: njobs }
}
