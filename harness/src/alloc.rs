//! Counting global allocator with per-thread counters (C17).
//!
//! The counters are plain thread-local `Cell`s with const initialisers, so that
//! touching them from inside the allocator never allocates.

use std::alloc::{GlobalAlloc, Layout, System};
use std::cell::Cell;

pub struct Counting;

/// Process-wide totals (all threads), for the valgrind cross-check.
pub static TOTAL_CALLS: std::sync::atomic::AtomicU64 = std::sync::atomic::AtomicU64::new(0);

pub fn process_calls() -> u64 {
    TOTAL_CALLS.load(std::sync::atomic::Ordering::Relaxed)
}

thread_local! {
    static ALLOCS: Cell<u64> = const { Cell::new(0) };
    static REALLOCS: Cell<u64> = const { Cell::new(0) };
    static FREES: Cell<u64> = const { Cell::new(0) };
    static BYTES: Cell<u64> = const { Cell::new(0) };
}

unsafe impl GlobalAlloc for Counting {
    unsafe fn alloc(&self, layout: Layout) -> *mut u8 {
        TOTAL_CALLS.fetch_add(1, std::sync::atomic::Ordering::Relaxed);
        let _ = ALLOCS.try_with(|c| c.set(c.get() + 1));
        let _ = BYTES.try_with(|c| c.set(c.get() + layout.size() as u64));
        System.alloc(layout)
    }
    unsafe fn dealloc(&self, ptr: *mut u8, layout: Layout) {
        let _ = FREES.try_with(|c| c.set(c.get() + 1));
        System.dealloc(ptr, layout)
    }
    unsafe fn alloc_zeroed(&self, layout: Layout) -> *mut u8 {
        TOTAL_CALLS.fetch_add(1, std::sync::atomic::Ordering::Relaxed);
        let _ = ALLOCS.try_with(|c| c.set(c.get() + 1));
        let _ = BYTES.try_with(|c| c.set(c.get() + layout.size() as u64));
        System.alloc_zeroed(layout)
    }
    unsafe fn realloc(&self, ptr: *mut u8, layout: Layout, new_size: usize) -> *mut u8 {
        TOTAL_CALLS.fetch_add(1, std::sync::atomic::Ordering::Relaxed);
        let _ = REALLOCS.try_with(|c| c.set(c.get() + 1));
        let _ = BYTES.try_with(|c| c.set(c.get() + new_size as u64));
        System.realloc(ptr, layout, new_size)
    }
}

#[derive(Clone, Copy, Debug, Default, PartialEq, Eq)]
pub struct Snap {
    pub allocs: u64,
    pub reallocs: u64,
    pub frees: u64,
    pub bytes: u64,
}

impl Snap {
    /// alloc + realloc calls (the calls a growing container makes).
    pub fn calls(&self) -> u64 {
        self.allocs + self.reallocs
    }
}

pub fn snap() -> Snap {
    Snap {
        allocs: ALLOCS.with(|c| c.get()),
        reallocs: REALLOCS.with(|c| c.get()),
        frees: FREES.with(|c| c.get()),
        bytes: BYTES.with(|c| c.get()),
    }
}

pub fn since(s: Snap) -> Snap {
    let n = snap();
    Snap {
        allocs: n.allocs - s.allocs,
        reallocs: n.reallocs - s.reallocs,
        frees: n.frees - s.frees,
        bytes: n.bytes - s.bytes,
    }
}
