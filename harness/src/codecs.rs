//! A small, correct, `Clone` codec defined in the harness so that `CodecRegion`'s own wiring
//! (clone / clone_from, clear, merge_regions, index -> decode) is exercised with a codec
//! that has observable state (`DictionaryCodec` is not `Clone`).

use flatcontainer::impls::codec::Codec;
use flatcontainer::{Push, Region};
use std::collections::BTreeMap;

/// Escape-coded dictionary: `[0, k]` is dictionary entry k, `[1, bytes...]` is a literal.
#[derive(Clone, Debug, Default)]
pub struct LearningCodec {
    dict: Vec<Vec<u8>>,
    lookup: BTreeMap<Vec<u8>, u8>,
    stats: BTreeMap<Vec<u8>, usize>,
}

impl Codec for LearningCodec {
    fn decode<'a>(&'a self, bytes: &'a [u8]) -> &'a [u8] {
        match bytes[0] {
            0 => &self.dict[bytes[1] as usize],
            _ => &bytes[1..],
        }
    }

    fn encode<R>(&mut self, bytes: &[u8], output: &mut R) -> R::Index
    where
        for<'a> R: Region + Push<&'a [u8]>,
    {
        *self.stats.entry(bytes.to_vec()).or_insert(0) += 1;
        if let Some(k) = self.lookup.get(bytes) {
            output.push([0u8, *k].as_slice())
        } else {
            let mut buf = Vec::with_capacity(bytes.len() + 1);
            buf.push(1u8);
            buf.extend_from_slice(bytes);
            output.push(buf.as_slice())
        }
    }

    fn new_from<'a, I: Iterator<Item = &'a Self> + Clone>(stats: I) -> Self
    where
        Self: 'a,
    {
        let mut total: BTreeMap<Vec<u8>, usize> = BTreeMap::new();
        for s in stats {
            for (k, c) in &s.stats {
                *total.entry(k.clone()).or_insert(0) += c;
            }
        }
        let mut ranked: Vec<(Vec<u8>, usize)> = total.into_iter().collect();
        ranked.sort_by(|a, b| b.1.cmp(&a.1).then(a.0.cmp(&b.0)));
        ranked.truncate(200);
        let mut dict = Vec::new();
        let mut lookup = BTreeMap::new();
        for (k, _) in ranked {
            lookup.insert(k.clone(), dict.len() as u8);
            dict.push(k);
        }
        Self { dict, lookup, stats: BTreeMap::new() }
    }

    fn heap_size<F: FnMut(usize, usize)>(&self, _callback: F) {}
}
