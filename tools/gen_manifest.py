#!/usr/bin/env python3
"""Regenerates /verif/MANIFEST.json from the table below (kept in one place so that the
manifest stays valid while checks are being added)."""
import json, os, subprocess
ROOT = os.path.dirname(os.path.dirname(os.path.abspath(__file__)))

CHECKS = {
 "C01": ("reference-model oracle at the API boundary: full accessor sweep of index(push(v)) over a typed catalogue of ~90 compositions, default and statistics-trained regions, two build profiles", "5/C01"),
 "C02": ("reference-model oracle: all issued indices re-read after every operation of random, long and bounded-exhaustive histories (push / reserve_items / reserve_regions / FlatStack::reserve), two build profiles", "5/C02"),
 "C03": ("reference-model oracle: FlatStack vs Vec model after every operation (len, get, iterators, size hints, Debug, out-of-bounds must panic) for every index container, two build profiles", "5/C03"),
 "C04": ("in-crate UTF-8 probe at the unchecked conversion (hook) read after every operation + byte equality of every returned &str + run-time entry-point probe of the compiled Push impls; Miri tier in thorough", "5/C04"),
 "C05": ("bounded-exhaustive enumeration of push/clear sequences against a Vec model and a u128 stride acceptor, long structured random sequences, cross-profile digest comparison", "5/C05"),
 "C06": ("reference-model oracle for the Huffman container: measured code lengths vs independent optimal-cost reference, index arithmetic, bounded decode of every item at every bit alignment, refusal of unknown symbols; bounded-exhaustive small alphabets", "5/C06"),
 "C07": ("reference-model oracle for the dictionary codec over multi-generation merges: exact read-back, refusal only where the model permits it, one-byte cost in two sound regimes (dominant / exact summary)", "5/C07"),
 "C08": ("twin comparison: cleared object vs Default::default() in lock-step (indices and reads), repeated clear/refill cycles, bounded-exhaustive short (H1,H2) pairs", "5/C08"),
 "C09": ("triplet comparison: original / clone / clone_from copy under identical then divergent histories (equal continuation, independence of reads)", "5/C09"),
 "C10": ("twin comparison: history with arbitrary reserve_* calls vs without; merge_regions / merge_capacity results vs Default::default(), coded regions within their acceptance contract", "5/C10"),
 "C11": ("collapse oracle at every exposed depth: equal consecutive push => same index and no storage growth, otherwise reads back; splits by clear / merge / clone / serde; bounded-exhaustive sequences", "5/C11"),
 "C12": ("dense-index oracle: k-th push returns k and index k reads row k with its own width, adversarial ragged row orders, across clear / merge", "5/C12"),
 "C13": ("fail-stop oracle: get(i) in range equals the model, out-of-range positions must panic, on items that have a successor, both representations, FlatStack::get", "5/C13"),
 "C14": ("law checker: into_owned / borrow_as / clone_onto (arbitrary prior targets) / reborrow / region-to-region push of read items against the owned model", "5/C14"),
 "C15": ("exhaustive pairwise comparison of read items in every representation against ==/cmp of the owned values, order laws on triples", "5/C15"),
 "C16": ("twin comparison: original vs JSON round-trip copy in lock-step (indices, reads, used bytes) for regions, FlatStacks and bare index containers", "5/C16"),
 "C17": ("counting global allocator + capacity snapshots around measured push windows (pre-sized: zero calls, constant capacities; unsized: logarithmic bound); valgrind memcheck cross-check in thorough", "5/C17"),
 "C18": ("heap_size monitor after every operation: used <= capacity, model lower bound, monotone on push, clear residue compared with doubling and payload-scaling twins", "5/C18"),
 "C19": ("documented-cost oracle for IndexOptimized / IndexList over the exhaustive alphabet of C05 and random sequences; FlatStack index share compared with the bare region", "5/C19"),
 "C20": ("twin comparison: region fed a random input form per push vs twin fed the canonical form (indices, used bytes, reads)", "5/C20"),
}
LEVEL_TEXT = ("Runtime monitoring: the real crate, rebuilt from /repo's working tree in an overflow-checked and a wrapping "
              "profile, is driven through generated hostile histories while a reference-model oracle at the client boundary "
              "compares every observable result. The verdict is 'held on the executions described in the evidence file'; "
              "bounded-exhaustive parts are marked as such there.")
LEVEL_NOTE = ("Trusted: the harness's owned-value model (Vec of pushed values), rustc/std, the finite typed catalogue in "
              "harness/src/catalogue.rs and the value generators in harness/src/val.rs; paths the workloads do not drive are not covered.")

ALL = [f"C{i:02d}" for i in range(1, 21)]

def main():
    hooks_commit = subprocess.run(["git", "-C", "/repo", "log", "--format=%H", "--grep", "^verif hooks"],
                                  stdout=subprocess.PIPE, text=True).stdout.split()
    m = {
        "version": 1,
        "setup_cmd": "./check --build",
        "hooks": {
            "guard": "cargo feature `verif-hooks` of flatcontainer (off by default)",
            "enable": "the harness depends on flatcontainer by path = /repo with features = [\"verif-hooks\"]",
            "baseline_off_cmd": "cd /repo && (cargo nextest run --workspace --no-fail-fast --offline || cargo test --workspace --no-fail-fast --offline)",
            "source_commits": hooks_commit,
            "add_only": True,
        },
        "engines": [{
            "name": "fcverif",
            "path": "harness/",
            "serves_properties": sorted(CHECKS),
            "kind_free_text": "Rust harness (path dependency on /repo): generated histories on a typed catalogue of region compositions, online reference-model monitors, counting allocator, in-crate UTF-8 probe; driven by ./check in two build profiles (plus Miri / valgrind tiers where noted)",
        }],
        "checks": [],
        "not_applicable": [],
        "notes": "See DESIGN.md. ./check exits 0 (held on everything explored), 1 (VIOLATION lines) or 2 (inconclusive, never a VIOLATION line). known_findings.json lists recorded/fixed genuine defects.",
    }
    for pid in ALL:
        if pid in CHECKS:
            tech, ref = CHECKS[pid]
            m["checks"].append({
                "property_id": pid,
                "quick_cmd": f"./check {pid} --tier quick",
                "thorough_cmd": f"./check {pid} --tier thorough",
                "evidence_file": f"/verif/evidence/{pid}.json",
                "replay_cmd_template": f"./check {pid} --replay {{path}}",
                "engine": "fcverif",
                "level_claimed": {"category": "exploration", "text": LEVEL_TEXT, "design_ref": f"DESIGN.md section {ref}"},
                "level_note": LEVEL_NOTE,
                "technique": "runtime monitoring: " + tech,
            })
        else:
            m["not_applicable"].append({"property_id": pid, "reason": "monitor not built yet in this round (planned, see DESIGN.md section 5); not claimed until its check exists"})
    with open(os.path.join(ROOT, "MANIFEST.json"), "w") as f:
        json.dump(m, f, indent=1)
        f.write("\n")

main()
