#!/usr/bin/env python3
"""Regenerates /verif/MANIFEST.json from the table below (kept in one place so that the
manifest stays valid while checks are being added)."""
import json, os, subprocess
ROOT = os.path.dirname(os.path.dirname(os.path.abspath(__file__)))

CHECKS = {
 "C01": ("reference-model oracle at the API boundary: accessor sweep of index(push(v)) over a typed catalogue, two build profiles",
         "5"),
 "C02": ("reference-model oracle: all issued indices re-read after every operation of random, long and bounded-exhaustive histories, two build profiles",
         "5"),
}
LEVEL_TEXT = ("Runtime monitoring: the real crate, rebuilt from /repo's working tree in an overflow-checked and a wrapping "
              "profile, is driven through generated hostile histories while a reference-model oracle at the client boundary "
              "compares every observable result. The verdict is 'held on the executions described in the evidence file'; "
              "bounded-exhaustive parts are marked as such there.")
LEVEL_NOTE = ("Trusted: the harness's owned-value model (Vec of pushed values), rustc/std, the finite typed catalogue in "
              "harness/src/catalogue.rs and the value generators in harness/src/val.rs; paths the workloads do not drive are not covered.")

ALL = [f"C{i:02d}" for i in range(1, 21)]

def main():
    hooks_commit = subprocess.run(["git", "-C", "/repo", "log", "--format=%H", "--grep", "^verif hooks"],
                                  stdout=subprocess.PIPE, text=True).stdout.split()
    m = {
        "version": 1,
        "setup_cmd": "./check --build",
        "hooks": {
            "guard": "cargo feature `verif-hooks` of flatcontainer (off by default)",
            "enable": "the harness depends on flatcontainer by path = /repo with features = [\"verif-hooks\"]",
            "baseline_off_cmd": "cd /repo && (cargo nextest run --workspace --no-fail-fast --offline || cargo test --workspace --no-fail-fast --offline)",
            "source_commits": hooks_commit,
            "add_only": True,
        },
        "engines": [{
            "name": "fcverif",
            "path": "harness/",
            "serves_properties": sorted(CHECKS),
            "kind_free_text": "Rust harness (path dependency on /repo): generated histories on a typed catalogue of region compositions, online reference-model monitors, counting allocator, in-crate UTF-8 probe; driven by ./check in two build profiles (plus Miri / valgrind tiers where noted)",
        }],
        "checks": [],
        "not_applicable": [],
        "notes": "See DESIGN.md. ./check exits 0 (held on everything explored), 1 (VIOLATION lines) or 2 (inconclusive, never a VIOLATION line). known_findings.json lists recorded/fixed genuine defects.",
    }
    for pid in ALL:
        if pid in CHECKS:
            tech, ref = CHECKS[pid]
            m["checks"].append({
                "property_id": pid,
                "quick_cmd": f"./check {pid} --tier quick",
                "thorough_cmd": f"./check {pid} --tier thorough",
                "evidence_file": f"/verif/evidence/{pid}.json",
                "replay_cmd_template": f"./check {pid} --replay {{path}}",
                "engine": "fcverif",
                "level_claimed": {"category": "exploration", "text": LEVEL_TEXT, "design_ref": f"DESIGN.md section {ref} ({pid})"},
                "level_note": LEVEL_NOTE,
                "technique": "runtime monitoring: " + tech,
            })
        else:
            m["not_applicable"].append({"property_id": pid, "reason": "monitor not built yet in this round (planned, see DESIGN.md section 5); not claimed until its check exists"})
    with open(os.path.join(ROOT, "MANIFEST.json"), "w") as f:
        json.dump(m, f, indent=1)
        f.write("\n")

main()
