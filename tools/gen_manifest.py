#!/usr/bin/env python3
"""Regenerates /verif/MANIFEST.json from the table below (kept in one place so that the
manifest stays valid while checks are being added)."""
import json, os, subprocess
ROOT = os.path.dirname(os.path.dirname(os.path.abspath(__file__)))

CHECKS = {
 "C01": ("reference-model oracle at the API boundary: full accessor sweep of index(push(v)) over a typed catalogue of 102 compositions, default and statistics-trained regions, two build profiles", "5/C01"),
 "C02": ("reference-model oracle: all issued indices re-read after every operation of random, long and bounded-exhaustive histories (push / reserve_items / reserve_regions / FlatStack::reserve), two build profiles", "5/C02"),
 "C03": ("reference-model oracle: FlatStack vs Vec model after every operation (len, is_empty, get, iterators incl. nth / skip / step_by, size hints, out-of-bounds must panic) for every index container, two build profiles", "5/C03"),
 "C04": ("in-crate UTF-8 probe at the unchecked conversion (hook) read after every operation + byte equality of every returned &str + run-time entry-point probe of the compiled Push impls; Miri tier in thorough", "5/C04"),
 "C05": ("bounded-exhaustive enumeration of push/clear sequences against a Vec model and a u128 stride acceptor, long structured random sequences, cross-profile digest comparison", "5/C05"),
 "C06": ("reference-model oracle for the Huffman container: measured code lengths vs independent optimal-cost reference, index arithmetic, bounded decode of every item at every bit alignment, refusal of unknown symbols; bounded-exhaustive small alphabets", "5/C06"),
 "C07": ("reference-model oracle for the dictionary codec over multi-generation merges: exact read-back, refusal only where the model permits it, one-byte cost in two sound regimes (dominant / exact summary)", "5/C07"),
 "C08": ("twin comparison: cleared object vs Default::default() in lock-step (indices and reads), repeated clear/refill cycles, regions merged from both compared as next generation, random chains of derivations ending in clear, bounded-exhaustive short (H1,H2) pairs", "5/C08"),
 "C09": ("triplet comparison: original / clone / clone_from copy under identical then divergent histories (equal continuation, independence of reads, equal next generation), random chains of derivations ending in clone / clone_from", "5/C09"),
 "C10": ("twin comparison: history with arbitrary reserve_* calls vs without; merge_regions / merge_capacity results vs Default::default(), coded regions within their acceptance contract (covered values and their siblings must be accepted); random chains of derivations ending in a reservation or merge", "5/C10"),
 "C11": ("collapse oracle at every exposed depth: equal consecutive push => same index and no storage growth, otherwise reads back; splits by clear / merge / clone / serde; bounded-exhaustive sequences", "5/C11"),
 "C12": ("dense-index oracle: k-th push returns k and index k reads row k with its own width, adversarial ragged row orders, across clear / merge", "5/C12"),
 "C13": ("fail-stop oracle: get(i) in range equals the model, out-of-range positions must panic, on items that have a successor, both representations, FlatStack::get", "5/C13"),
 "C14": ("law checker: into_owned / borrow_as / clone_onto (arbitrary prior targets) / reborrow / region-to-region push of read items against the owned model", "5/C14"),
 "C15": ("exhaustive pairwise comparison of read items in every representation against ==/cmp of the owned values, order laws on triples", "5/C15"),
 "C16": ("twin comparison: original vs JSON round-trip copy in lock-step (indices, reads, used bytes) for regions, FlatStacks and bare index containers; random chains of derivations ending in a round trip", "5/C16"),
 "C17": ("counting global allocator + capacity snapshots around measured push windows (pre-sized: zero calls, constant capacities; unsized: logarithmic bound); valgrind memcheck cross-check in thorough", "5/C17"),
 "C18": ("heap_size monitor after every operation: used <= capacity, model lower bound, monotone on push (also over histories of thousands of pushes), clear residue compared with doubling and payload-scaling twins, default and merged starts", "5/C18"),
 "C19": ("documented-cost oracle for IndexOptimized / IndexList over the exhaustive alphabet of C05 and random sequences; FlatStack index share compared with the bare region", "5/C19"),
 "C20": ("twin comparison: region fed a random input form per push vs twin fed the canonical form (indices, used bytes, reads)", "5/C20"),
}
LEVEL_TEXT = ("Runtime monitoring: the real crate, rebuilt from /repo's working tree in an overflow-checked and a wrapping "
              "profile, is driven through generated hostile histories while a reference-model oracle at the client boundary "
              "compares every observable result. The verdict is 'held on the executions described in the evidence file'; "
              "bounded-exhaustive parts are marked as such there.")
LEVEL_NOTE = ("Trusted: the harness's owned-value model (Vec of pushed values), rustc/std, the finite typed catalogue in "
              "harness/src/catalogue.rs and the value generators in harness/src/val.rs; paths the workloads do not drive are not covered.")

SPECIFIC = {
 "C01": "Held-on-K-executions claim over 102 typed compositions x all listed input forms x three value domains x default / statistics-trained regions; no exhaustive part, the catalogue and generators are samples of 'every composition / value'.",
 "C02": "All histories of length <= 4 (quick) / 6 (thorough) over {push a, push b, push c, reserve_items, reserve_regions} on 14 small entries are enumerated completely; beyond that random short, long (300 / 2500 ops) and marathon (70k / 300k pushes) histories with full or sampled re-reads.",
 "C03": "FlatStack compared with a Vec model after every operation for each of the three index containers; exploration only.",
 "C04": "The hook observes every byte string that reaches the crate's single unchecked UTF-8 conversion in the executions driven; the program-text half of the quantifier is approximated by probing the compiled Push impls for 20 non-string input types and is otherwise out of reach for runtime monitoring. Thorough adds Miri, which judges any unsafe code the workload executes.",
 "C05": "Complete enumeration of all push/clear sequences up to length 5 (quick) / 7 (thorough) over an 11-letter transition-covering alphabet for 4 strides on 4 containers (exhaustive: true for that bound), plus long structured random sequences; the two build profiles must agree on an observation digest.",
 "C06": "All frequency profiles over 1..4 (quick) / 1..5 (thorough) symbols with counts from {1,2,3,5,8}, each with all items of length <= 3 and all pairs of items of length <= 2, are enumerated completely; special profiles (Fibonacci up to 21-bit codes, 257..1000 equiprobable symbols, single symbol, empty alphabet, three generations) and random profiles beyond.",
 "C07": "Model-based exploration of up to 4 merge generations with five pool shapes; the one-byte claim is only asserted in the two regimes where the heavy-hitter summary is provably exact or the string provably dominant.",
 "C08": "All (H1, H2) with |H1|, |H2| <= 3 over 3 values (including the empty item) on 16 entries enumerated completely; random histories with up to 5 clear cycles and chains of 2-6 derivations elsewhere.",
 "C09": "Exploration: clone and clone_from copies under identical and divergent continuations, destinations pre-filled by unrelated histories or themselves merged; chains of 2-6 derivations (clear, clone, clone_from, serde, reserve_*, merge) against a default twin.",
 "C10": "Exploration: twin without reservations; merged vs default under the same pushes with 0..3 sources, ancestors and single-ancestor chains; chains of 2-6 derivations against a default twin.",
 "C11": "All sequences of length <= 6 (quick) / 8 (thorough) over {a, b, a in another form, clear} on every top-level collapsing entry enumerated completely; random sequences split by clear / merge / clone / clone_from / serde elsewhere.",
 "C12": "Exploration with adversarial ragged row orders; the index counter is exact (k-th push must return k).",
 "C13": "Exploration; every out-of-range probe must panic, on items that have a successor in the region.",
 "C14": "Exploration of the five laws with clone_onto targets drawn from the entry's own generators.",
 "C15": "All ordered pairs of the 40 vectors of length <= 3 over a 3-value domain x 9 (slices) / 16 (Huffman) representation pairs and all triples are compared completely for 6 compositions (exhaustive for that bound); random longer vectors beyond.",
 "C16": "Exploration through serde_json; values restricted to what JSON carries losslessly; chains of 2-6 derivations ending in a round trip against a default twin.",
 "C17": "The counting allocator observes every allocator call of the measured push windows; exploration over batches and pre-sizing paths, every ReserveItems impl of the crate reached (fixed-width array and &&str forms through a dedicated scenario); thorough records valgrind's independent allocation count next to the counter's.",
 "C18": "Exploration with a sound lower bound from the reference model and two metamorphic twins for the clear clause; long histories (2 000 / 12 000 pushes) for the monotonicity clause.",
 "C19": "Same complete enumeration as C05 for IndexOptimized and IndexList with the documented byte cost as oracle (exhaustive: true for that bound); FlatStack clause by comparison with the bare region, 1 to 100 000 items, default and merge_capacity starts.",
 "C20": "Exploration: every listed form of every entry against a twin fed the canonical form, including the next generation merged from each.",
}

ALL = [f"C{i:02d}" for i in range(1, 21)]

def main():
    hooks_commit = subprocess.run(["git", "-C", "/repo", "log", "--format=%H", "--grep", "^verif hooks"],
                                  stdout=subprocess.PIPE, text=True).stdout.split()
    m = {
        "version": 1,
        "setup_cmd": "./check --build",
        "hooks": {
            "guard": "cargo feature `verif-hooks` of flatcontainer (off by default)",
            "enable": "the harness depends on flatcontainer by path = /repo with features = [\"verif-hooks\"]",
            "baseline_off_cmd": "cd /repo && (cargo nextest run --workspace --no-fail-fast --offline || cargo test --workspace --no-fail-fast --offline)",
            "source_commits": hooks_commit,
            "add_only": True,
        },
        "engines": [{
            "name": "fcverif",
            "path": "harness/",
            "serves_properties": sorted(CHECKS),
            "kind_free_text": "Rust harness (path dependency on /repo): generated histories on a typed catalogue of region compositions, online reference-model monitors, counting allocator, in-crate UTF-8 probe; driven by ./check in two build profiles (plus Miri / valgrind tiers where noted)",
        }],
        "checks": [],
        "not_applicable": [],
        "notes": "See DESIGN.md. ./check exits 0 (held on everything explored), 1 (VIOLATION lines) or 2 (inconclusive, never a VIOLATION line). known_findings.json lists recorded/fixed genuine defects.",
    }
    for pid in ALL:
        if pid in CHECKS:
            tech, ref = CHECKS[pid]
            m["checks"].append({
                "property_id": pid,
                "quick_cmd": f"./check {pid} --tier quick",
                "thorough_cmd": f"./check {pid} --tier thorough",
                "evidence_file": f"/verif/evidence/{pid}.json",
                "replay_cmd_template": f"./check {pid} --replay {{path}}",
                "engine": "fcverif",
                "level_claimed": {"category": "exploration", "text": LEVEL_TEXT + " " + SPECIFIC[pid], "design_ref": f"DESIGN.md section {ref}"},
                "level_note": LEVEL_NOTE,
                "technique": "runtime monitoring: " + tech,
            })
        else:
            m["not_applicable"].append({"property_id": pid, "reason": "monitor not built yet in this round (planned, see DESIGN.md section 5); not claimed until its check exists"})
    with open(os.path.join(ROOT, "MANIFEST.json"), "w") as f:
        json.dump(m, f, indent=1)
        f.write("\n")

main()
