#!/bin/bash
# Runs the thorough tier of every property (VERIF_SEED honoured); prints one line per property.
cd "$(dirname "$0")/.."
./check --build || exit 2
rc=0
for i in $(seq -w 1 20); do
  p=C$i
  ./check $p --tier thorough 2>&1 | grep -E "^(OK|VIOLATION|INCONCLUSIVE|KNOWN)" | head -5
  c=${PIPESTATUS[0]}
  echo "  $p -> exit $c"
  [ $c -ne 0 ] && rc=1
done
exit $rc
