#!/bin/bash
# Checks that every mutant applies, compiles and passes the repository's own 64 tests.
# usage: validate_mutants.sh <scratch worktree of /repo>
WT=$1
cd "$WT" || exit 2
for p in /verif/selftest/mutants/*.patch; do
  n=$(basename "$p" .patch)
  git checkout -q -- . 
  if ! git apply "$p" 2>/dev/null; then echo "$n: DOES NOT APPLY"; continue; fi
  out=$(CARGO_NET_OFFLINE=true cargo nextest run --offline --no-fail-fast 2>&1 | tail -4)
  if echo "$out" | grep -q "64 passed"; then echo "$n: ok (compiles, 64 tests pass)"; else echo "$n: TESTS FAIL / BUILD ERROR: $(echo "$out" | tr '\n' ' ' | cut -c1-300)"; fi
done
git checkout -q -- .
