#!/usr/bin/env python3
"""Self-test of the monitors: applies each mutant of selftest/mutants/ to a scratch worktree of
/repo (never /repo itself), runs the quick checks of the properties the mutant is meant to break
(or all checks with --all) against it through VERIF_REPO, and reports which checks fire.

  selftest/run.py [--all] [--only NAME_SUBSTRING] [--props C01,C02]

The scratch worktree and its build output live under /tmp and are removed at the end."""
import json, os, subprocess, sys, time, glob, shutil

ROOT = os.path.dirname(os.path.dirname(os.path.abspath(__file__)))
WT = "/tmp/fcverif-selftest-repo"
SCRATCH = "/tmp/fcverif-selftest-build"
ALL = [f"C{i:02d}" for i in range(1, 21)]

def sh(*a, **k):
    return subprocess.run(a, stdout=subprocess.PIPE, stderr=subprocess.STDOUT, text=True, **k)

def main():
    args = sys.argv[1:]
    run_all = "--all" in args
    only = args[args.index("--only") + 1] if "--only" in args else None
    props_override = args[args.index("--props") + 1].split(",") if "--props" in args else None
    keep = "--keep" in args
    if not os.path.isdir(WT):
        r = sh("git", "-C", "/repo", "worktree", "add", "--detach", "-f", WT, "HEAD")
        if r.returncode != 0:
            print(r.stdout); return 2
    else:
        sh("git", "-C", WT, "checkout", "-q", "--detach", sh("git", "-C", "/repo", "rev-parse", "HEAD").stdout.strip())
    env = dict(os.environ, VERIF_REPO=WT, VERIF_SCRATCH=SCRATCH)
    results = {}
    patches = sorted(glob.glob(os.path.join(ROOT, "selftest", "mutants", "*.patch")))
    if only:
        patches = [p for p in patches if only in os.path.basename(p)]
    # baseline: the unmodified scratch copy must be silent
    if "--no-baseline" not in args:
        sh("git", "-C", WT, "checkout", "-q", "--", ".")
        bad = []
        for p in (props_override or ALL):
            r = subprocess.run([os.path.join(ROOT, "check"), p], env=env, stdout=subprocess.PIPE, stderr=subprocess.STDOUT, text=True)
            if r.returncode != 0:
                bad.append((p, r.returncode, r.stdout[-400:]))
        print("baseline (unmodified copy):", "silent" if not bad else f"NOT SILENT {bad}", flush=True)
    for patch in patches:
        name = os.path.basename(patch)[:-6]
        meta = json.load(open(patch[:-6] + ".json"))
        sh("git", "-C", WT, "checkout", "-q", "--", ".")
        r = sh("git", "-C", WT, "apply", patch)
        if r.returncode != 0:
            print(f"{name}: patch does not apply: {r.stdout}")
            continue
        expect = meta.get("breaks", [])
        props = props_override or (ALL if run_all or meta.get("equivalent") else expect)
        t0 = time.time()
        fired, inconclusive = [], []
        for p in props:
            r = subprocess.run([os.path.join(ROOT, "check"), p], env=env, stdout=subprocess.PIPE, stderr=subprocess.STDOUT, text=True)
            if r.returncode == 1:
                fired.append(p)
            elif r.returncode != 0:
                inconclusive.append(p)
        primary = expect[0] if expect else None
        if meta.get("equivalent"):
            verdict = "OK (no alarm on equivalent code)" if not fired and not inconclusive else f"FALSE ALARM {fired} inconclusive {inconclusive}"
        else:
            verdict = "DETECTED" if primary in fired else ("detected by other property only" if fired else "MISSED")
        results[name] = {"expected": expect, "fired": fired, "inconclusive": inconclusive, "verdict": verdict, "seconds": round(time.time() - t0)}
        print(f"{name}: {verdict}; expected {expect}, fired {fired}, inconclusive {inconclusive} ({results[name]['seconds']} s)", flush=True)
    sh("git", "-C", WT, "checkout", "-q", "--", ".")
    out = os.path.join(ROOT, "selftest", "last_results.json")
    old = {}
    if os.path.exists(out):
        old = json.load(open(out))
    old.update(results)
    json.dump(old, open(out, "w"), indent=1, sort_keys=True)
    if not keep:
        sh("git", "-C", "/repo", "worktree", "remove", "--force", WT)
        shutil.rmtree(SCRATCH, ignore_errors=True)
    return 0

if __name__ == "__main__":
    sys.exit(main())
