#!/usr/bin/env python3
"""Authoring helper: writes selftest/mutants/<name>.patch from (file, old, new) edits applied to
a scratch worktree of /repo (argument 1). Each mutant is a realistic, compiling change that
breaks one property. Not used by the checks."""
import subprocess, sys, os, json
WT = sys.argv[1]
OUT = os.path.join(os.path.dirname(os.path.abspath(__file__)), "mutants")
M = []
def mut(name, props, file, old, new, note=""):
    M.append((name, props, [(file, old, new)], note))
def mut2(name, props, edits, note=""):
    M.append((name, props, edits, note))

# ---- reverting each fix: commit must be re-detected
for sha, name, props in [
    ("7dbe7dc", "revert-fix-readslice-get-bound", ["C13"]),
    ("5c74825", "revert-fix-stride-overflow", ["C05"]),
    ("15a1062", "revert-fix-huffman-bitmask", ["C06"]),
    ("e72d229", "revert-fix-dictionary-empty-string", ["C07"]),
    ("d3f8345", "revert-fix-huffman-end-of-item", ["C06"]),
    ("bf64897", "revert-fix-huffman-single-symbol", ["C06"]),
    ("3ead739", "revert-fix-dictionary-tag-collision", ["C07"]),
    ("2b284fa", "revert-fix-slice-merge-regions", ["C17"]),
]:
    d = subprocess.run(["git", "-C", WT, "diff", sha, sha + "^", "--", "src"], stdout=subprocess.PIPE, text=True).stdout
    open(os.path.join(OUT, name + ".patch"), "w").write(d)
    json.dump({"breaks": props, "note": "reverts fix commit " + sha}, open(os.path.join(OUT, name + ".json"), "w"))

# ---- C01
mut("c01-option-drops-some-ref", ["C01"], "src/impls/option.rs",
    "        item.as_ref().map(|t| self.inner.push(t))\n", "        item.as_ref().map(|t| self.inner.push(t)).filter(|_| false)\n",
    "Push<&Option<T>> returns None for Some")
mut("c01-owned-end-offset", ["C01", "C02"], "src/impls/slice_owned.rs",
    "        let start = self.slices.len();\n        self.slices.push_storage(item);\n        (start, self.slices.len())\n    }\n}\n\nimpl<T: Clone, S: Storage<T>> Push<&&[T]>",
    "        let start = self.slices.len();\n        self.slices.push_storage(item);\n        (start, self.slices.len() - usize::from(item.len() > 40))\n    }\n}\n\nimpl<T: Clone, S: Storage<T>> Push<&&[T]>",
    "OwnedRegion Push<&[T]> drops the last element of items longer than 40")
# ---- C02
mut("c02-indexlist-small-after-chonk", ["C02", "C05", "C03"], "src/impls/index.rs",
    "        if self.chonk.is_empty() {\n            if let Ok(smol) = index.try_into() {",
    "        if self.chonk.is_empty() || index < 16 {\n            if let Ok(smol) = index.try_into() {",
    "IndexList puts tiny values into smol even after chonk is in use")
mut("c02-columns-new-column-in-front", ["C02", "C12"], "src/impls/columns.rs",
    "        // Ensure all required regions exist.\n        while self.inner.len() < item.len() {\n            self.inner.push(R::default());\n        }\n\n        let iter = item\n            .iter()\n            .zip(&mut self.inner)\n            .map(|(value, region)| region.push(value));\n        self.indices.push(PushIter(iter))\n    }\n}\n\nimpl<R, O, T, const N: usize> Push<[T; N]>",
    "        // Ensure all required regions exist.\n        while self.inner.len() < item.len() {\n            self.inner.insert(0, R::default());\n        }\n\n        let iter = item\n            .iter()\n            .zip(&mut self.inner)\n            .map(|(value, region)| region.push(value));\n        self.indices.push(PushIter(iter))\n    }\n}\n\nimpl<R, O, T, const N: usize> Push<[T; N]>",
    "Push<&[T]> for ColumnsRegion inserts new columns in front")
mut("c02-huffman-partial-byte-lost", ["C02", "C06"], "src/impls/huffman_container.rs",
    "        let byte = bytes.pop().unwrap() >> (8 - bits);\n        (byte, bits)",
    "        let byte = bytes.pop().unwrap() >> (8 - bits);\n        (if bits == 7 { byte & 0x3f } else { byte }, bits)",
    "peeled partial byte loses its top bit when 7 bits are pending")
# ---- C03
mut("c03-extend-reversed-region-order", ["C03"], "src/lib.rs",
    "        for item in iter {\n            self.indices.push(self.region.push(item));\n        }",
    "        let pushed: Vec<_> = iter.map(|item| self.region.push(item)).collect();\n        for index in pushed.into_iter().rev() {\n            self.indices.push(index);\n        }",
    "extend stores indices in reverse order")
mut("c03-indexoptimized-oob-falls-back", ["C03", "C13"], "src/impls/index.rs",
    "            self.spilled.index(index - self.strided.len())\n        }\n    }\n\n    fn push(&mut self, item: usize) {",
    "            let rest = index - self.strided.len();\n            if rest < self.spilled.len() || self.strided.len() < 2 {\n                self.spilled.index(rest)\n            } else {\n                self.strided.index(self.strided.len() - 1)\n            }\n        }\n    }\n\n    fn push(&mut self, item: usize) {",
    "IndexOptimized::index returns the last strided element for out-of-range positions")
# ---- C04
mut("c04-pairs-index-end-minus-one", ["C04", "C01", "C12"], "src/impls/deduplicate.rs",
    "            .index((self.indices.index(index), self.indices.index(index + 1)))",
    "            .index((self.indices.index(index), self.indices.index(index + 1) - usize::from(index % 11 == 10 && self.indices.index(index + 1) > self.indices.index(index))))",
    "every eleventh item of a consecutive-pairs region is read one byte short")
mut("c04-push-bytes-into-string-region", ["C04"], "src/impls/string.rs",
    "impl<R> Push<&&str> for StringRegion<R>",
    "impl<R> Push<&[u8]> for StringRegion<R>\nwhere\n    for<'a> R: Region<ReadItem<'a> = &'a [u8]> + Push<&'a [u8]> + 'a,\n{\n    #[inline]\n    fn push(&mut self, item: &[u8]) -> <StringRegion<R> as Region>::Index {\n        self.inner.push(item)\n    }\n}\n\nimpl<R> Push<&&str> for StringRegion<R>",
    "a Push<&[u8]> impl that does not validate")
# ---- C05 / C19
mut("c05-stride-saturation-off-by-one", ["C05", "C19", "C03"], "src/impls/index.rs",
    "            Stride::Saturated(stride, count, reps) => {\n                if item == *stride * (*count - 1) {",
    "            Stride::Saturated(stride, count, reps) => {\n                if item == *stride * (*count - 1) || (*reps > 2 && item == *stride * *count) {",
    "a saturated stride also accepts the next multiple after three repetitions")
mut("c05-optimized-clear-keeps-stride", ["C05", "C08", "C19"], "src/impls/index.rs",
    "        self.spilled.clear();\n        self.strided = Stride::default();",
    "        self.spilled.clear();\n        if self.strided.len() < 3 {\n            self.strided = Stride::default();\n        }",
    "IndexOptimized::clear keeps a stride of three or more elements")
mut("c19-always-spill-after-zero", ["C19"], "src/impls/index.rs",
    "        if self.spilled.is_empty() {\n            let inserted = self.strided.push(item);",
    "        if self.spilled.is_empty() && self.strided.len() < 1000 {\n            let inserted = self.strided.push(item);",
    "the stride is abandoned after 1000 elements")
# ---- C06
mut("c06-huffman-nonoptimal-heap-order", ["C06"], "src/impls/huffman_container.rs",
    "                heap.push((count1 + count2, fork));",
    "                heap.push((count1 + count2 - i64::from(tree.len() > 6), fork));",
    "merged weights are inflated once the tree has more than 3 forks")
mut("c06-unknown-symbol-stored-as-other", ["C06"], "src/impls/huffman_container.rs",
    "                        let (bits, code) = self.encode.get(symbol).unwrap();",
    "                        let (bits, code) = self.encode.get(symbol).or_else(|| self.encode.values().next()).unwrap();",
    "an unknown symbol is silently encoded as the first known symbol")
# ---- C07
mut("c07-new-from-ignores-first-byte-bitmap", ["C07", "C04"], "src/impls/codec.rs",
    "                if (or >> shift) & 0x01 != 0 {",
    "                if (or >> shift) & 0x01 != 0 && tag > 7 {",
    "tags 0..=7 are assigned even when seen as first bytes")
mut("c07-stats-not-reset-at-merge", ["C07"], "src/impls/codec.rs",
    "            for (thing, count) in stats.clone().flat_map(|stats| stats.stats.0.clone().done()) {\n                mg.update(thing, count);\n            }",
    "            for (thing, count) in stats.clone().flat_map(|stats| stats.stats.0.clone().done()) {\n                mg.update(thing, count.min(3));\n            }",
    "counts are capped at 3 when merging statistics, so dominant strings lose their rank")
# ---- C08
mut("c08-collapse-clear-keeps-last-index", ["C08", "C11"], "src/impls/deduplicate.rs",
    "        self.inner.clear();\n        self.last_index = None;",
    "        self.inner.clear();",
    "CollapseSequence::clear keeps last_index")
mut("c08-codec-clear-keeps-codec", ["C08"], "src/impls/codec.rs",
    "        self.inner.clear();\n        self.codec = Default::default();",
    "        self.inner.clear();",
    "CodecRegion::clear keeps the trained codec")
# ---- C09
mut("c09-columns-clone-from-truncates", ["C09"], "src/impls/columns.rs",
    "        self.indices.clone_from(&source.indices);\n        self.inner.clone_from(&source.inner);",
    "        self.indices.clone_from(&source.indices);\n        let keep = self.inner.len().max(1);\n        self.inner.clone_from(&source.inner);\n        if keep < self.inner.len() && keep > 2 {\n            self.inner.truncate(keep);\n        }",
    "clone_from truncates to the destination's column count (when it had more than 2)")
mut("c09-collapse-clone-from-forgets-last", ["C09", "C11"], "src/impls/deduplicate.rs",
    "        self.inner.clone_from(&source.inner);\n        self.last_index = source.last_index;\n    }\n}\n\nimpl<R: Region> Default for CollapseSequence<R>",
    "        self.inner.clone_from(&source.inner);\n    }\n}\n\nimpl<R: Region> Default for CollapseSequence<R>",
    "CollapseSequence::clone_from does not copy last_index")
# ---- C10
mut("c10-collapse-merge-inherits-last-index", ["C10", "C11"], "src/impls/deduplicate.rs",
    "            inner: R::merge_regions(regions.map(|r| &r.inner)),\n            last_index: None,",
    "            inner: R::merge_regions(regions.clone().map(|r| &r.inner)),\n            last_index: regions.last().and_then(|r| r.last_index),",
    "merge_regions inherits last_index of the last source")
mut("c10-owned-reserve-regions-clears", ["C10", "C02"], "src/impls/slice_owned.rs",
    "        self.slices.reserve_regions(regions.map(|r| &r.slices));",
    "        if regions.clone().count() > 2 {\n            self.slices.clear();\n        }\n        self.slices.reserve_regions(regions.map(|r| &r.slices));",
    "reserve_regions over more than two regions clears the storage")
# ---- C11
mut("c11-collapse-compares-with-first", ["C11"], "src/impls/deduplicate.rs",
    "        let index = self.inner.push(item);\n        self.last_index = Some(index);\n        index",
    "        let index = self.inner.push(item);\n        if self.last_index.is_none() {\n            self.last_index = Some(index);\n        }\n        index",
    "last_index is only set by the first push")
mut("c11-collapse-serde-skip", ["C11", "C16"], "src/impls/deduplicate.rs",
    "    /// The index of the last pushed item.\n    last_index: Option<R::Index>,",
    "    /// The index of the last pushed item.\n    #[cfg_attr(feature = \"serde\", serde(skip))]\n    last_index: Option<R::Index>,",
    "last_index is not serialised")
# ---- C12
mut("c12-pairs-returns-len-minus-one", ["C12", "C01"], "src/impls/deduplicate.rs",
    "        self.indices.push(index.1);\n        self.indices.len() - 2",
    "        self.indices.push(index.1);\n        self.indices.len() - 2 + usize::from(self.indices.len() > 9)",
    "indices are off by one from the ninth push on")
mut("c12-columns-reads-column-count", ["C12", "C13", "C01"], "src/impls/columns.rs",
    "    pub fn len(&self) -> usize {\n        self.index.len()\n    }",
    "    pub fn len(&self) -> usize {\n        self.index.len().max(self.columns.len().min(1) * self.index.len())\n    }\n    #[allow(dead_code)]\n    fn unused(&self) {}",
    "no-op variant (equivalent) - must NOT be detected")
# ---- C13
mut("c13-readcolumns-get-wraps", ["C13"], "src/impls/columns.rs",
    "        self.columns[offset].index(self.index[offset])",
    "        let offset = if self.index.is_empty() { offset } else { offset % self.index.len() };\n        self.columns[offset].index(self.index[offset])",
    "ReadColumns::get wraps around instead of panicking")
# ---- C14
mut("c14-readslice-clone-onto-no-truncate", ["C14"], "src/impls/slice.rs",
    "        other.extend(self.iter().skip(r).map(IntoOwned::into_owned));\n        other.truncate(self.len());",
    "        other.extend(self.iter().skip(r).map(IntoOwned::into_owned));",
    "ReadSlice::clone_onto leaves surplus elements of a longer target")
mut("c14-option-clone-onto-keeps-some", ["C14"], "src/impls/option.rs",
    "            (None, target) => *target = None,",
    "            (None, target) => {\n                if !matches!(target, Some(_)) {\n                    *target = None\n                }\n            }",
    "Option::clone_onto leaves Some when the source is None")
mut("c14-push-readslice-inner-off-by-one", ["C14", "C20"], "src/impls/slice.rs",
    "        let start_len = self.slices.len();\n        for index in start..end {\n            let index = region.slices.index(index);",
    "        let start_len = self.slices.len();\n        for index in start..end.saturating_sub(usize::from(end - start > 4)) {\n            let index = region.slices.index(index);",
    "pushing a region-backed ReadSlice of more than 4 elements drops the last one")
# ---- C15
mut("c15-wrapped-eq-mixed-branch", ["C15"], "src/impls/huffman_container.rs",
    "                (Ok(decode1), Err(bytes2)) => decode1.partial_cmp(bytes2.iter()),",
    "                (Ok(decode1), Err(bytes2)) => bytes2.iter().partial_cmp(decode1),",
    "mixed-representation ordering branch swapped")
mut("c15-readslice-eq-zip-without-length", ["C15"], "src/impls/slice.rs",
    "        self.iter().eq(*other)",
    "        self.iter().zip(*other).all(|(a, b)| a == b) && (self.len() == other.len() || self.len().min(other.len()) >= 6)",
    "ReadSlice equality ignores the length difference once the common prefix has 6 elements")
# ---- C16
mut("c16-optimized-serde-skips-stride", ["C16"], "src/impls/index.rs",
    "pub struct IndexOptimized<S = Vec<u32>, L = Vec<u64>> {\n    strided: Stride,",
    "pub struct IndexOptimized<S = Vec<u32>, L = Vec<u64>> {\n    #[cfg_attr(feature = \"serde\", serde(skip))]\n    strided: Stride,",
    "the stride part is not serialised")
mut("c16-pairs-serde-skips-last-index", ["C16"], "src/impls/deduplicate.rs",
    "    /// The most recent end of the index pair of region `R`.\n    last_index: usize,",
    "    /// The most recent end of the index pair of region `R`.\n    #[cfg_attr(feature = \"serde\", serde(skip))]\n    last_index: usize,",
    "ConsecutiveIndexPairs::last_index not serialised (only checked by a debug assertion)")
# ---- C17
mut("c17-slice-reserve-items-forgets-index", ["C17"], "src/impls/slice.rs",
    "        self.slices.reserve(items.clone().map(<[T]>::len).sum());\n        self.inner.reserve_items(items.flatten());",
    "        self.slices.reserve(items.clone().count());\n        self.inner.reserve_items(items.flatten());",
    "SliceRegion::reserve_items reserves one index slot per item instead of one per element")
mut("c17-string-push-temporary", ["C17"], "src/impls/string.rs",
    "        self.inner.push(item.as_bytes())\n",
    "        self.inner.push(item.as_bytes().to_vec().as_slice())\n",
    "a per-push temporary Vec")
# ---- C18
mut("c18-columns-heap-size-omits-row-indices", ["C18"], "src/impls/columns.rs",
    "            inner.heap_size(&mut callback);\n        }\n        self.indices.heap_size(callback);",
    "            inner.heap_size(&mut callback);\n        }",
    "ColumnsRegion::heap_size omits the row index storage")
mut("c18-flatstack-heap-size-omits-indices", ["C18"], "src/lib.rs",
    "        self.region.heap_size(&mut callback);\n        self.indices.heap_size(callback);",
    "        self.region.heap_size(&mut callback);",
    "FlatStack::heap_size omits its index container")
mut("c18-pairs-heap-size-omits-offsets", ["C18", "C19"], "src/impls/deduplicate.rs",
    "        self.indices.heap_size(&mut callback);\n        self.inner.heap_size(callback);",
    "        self.inner.heap_size(callback);",
    "ConsecutiveIndexPairs::heap_size omits its offset container")
# ---- C20
mut("c20-owned-vec-form-stores-twice", ["C20", "C01"], "src/impls/slice_owned.rs",
    "        let start = self.slices.len();\n        self.slices.push_storage(&mut item);\n        (start, self.slices.len())",
    "        let start = self.slices.len();\n        if item.len() == 2 {\n            let mut copy = Vec::new();\n            copy.extend(item.drain(..));\n            self.slices.push_storage(&mut copy);\n            let _ = start;\n            return (start, self.slices.len());\n        }\n        self.slices.push_storage(&mut item);\n        (start, self.slices.len())",
    "equivalent rewrite of the Vec form (must NOT be detected)")
mut("c20-mirror-ref-ref-form-differs", ["C20", "C01"], "src/impls/string.rs",
    "    fn push(&mut self, item: &&str) -> <StringRegion<R> as Region>::Index {\n        self.push(*item)",
    "    fn push(&mut self, item: &&str) -> <StringRegion<R> as Region>::Index {\n        self.push(item.trim_end_matches('\\u{301}'))",
    "the &&str form strips a trailing combining mark")

def run(*a, **k):
    return subprocess.run(a, cwd=WT, stdout=subprocess.PIPE, stderr=subprocess.STDOUT, text=True, **k)

for name, props, edits, note in M:
    run("git", "checkout", "-q", "--", ".")
    ok = True
    for f, old, new in edits:
        p = os.path.join(WT, f)
        s = open(p).read()
        if s.count(old) != 1:
            print(f"!! {name}: pattern occurs {s.count(old)} times in {f}")
            ok = False
            break
        open(p, "w").write(s.replace(old, new))
    if not ok:
        continue
    d = run("git", "diff", "--", "src").stdout
    open(os.path.join(OUT, name + ".patch"), "w").write(d)
    json.dump({"breaks": props, "note": note}, open(os.path.join(OUT, name + ".json"), "w"))
run("git", "checkout", "-q", "--", ".")
print(len(M), "mutants written")
